#!/bin/bash
# Builds the instrumenter once; everything else is rebuilt by each check from /repo's working tree.
set -euo pipefail
export GOFLAGS=-mod=mod GOPROXY=off GOSUMDB=off GOTOOLCHAIN=local
V=$(cd "$(dirname "$0")/.." && pwd)
mkdir -p "$V/build" "$V/replays" "$V/evidence"
(cd "$V/instr" && go1.26.8 build -o "$V/build/instr" ./cmd)
echo setup ok
