#!/usr/bin/env python3
"""Regenerates /verif/MANIFEST.json from the table below (kept in one place so that the
manifest stays valid while checks are added)."""
import json, os

V = os.path.dirname(os.path.dirname(os.path.abspath(__file__)))
props = [json.loads(l) for l in open(os.path.join(V, "properties.jsonl"))]

TECH = "deterministic simulation with fault injection (seeded schedule/fault search; real library code in a testing/synctest bubble against a broker reference model / scripted peers)"
NOTE = ("Trusted: the broker reference model, the repository's own codec (used on both sides), testing/synctest's fake clock and quiescence "
        "detection, the channel-based mutex replacement in the instrumented scratch copy. Sampling, not enumeration: a clean batch is evidence, not proof.")

claimed = {
 "C01": ("exploration", "Seeded search over write/flush/close histories x broker ack behaviours (immediate, batched, reordered, duplicated, failure codes, alias assignment at open / in acks) x delivery interleavings on a loss-free simulated link; the broker ledger, decoded through the alias table the broker itself handed out, is compared with the written multiset, per-writer order, numbering 1..N, close totals and the hook reports observable when Close returns.", "3/C01"),
 "C02": ("fault_enumeration", "Seeded search over positions of 1-3 transport failures (cut with tape-chosen subsets of in-flight frames still exchanged, silent peer, failed redials, cut handshakes, resume conflict) against reliable upstreams that keep writing; after healing, every accepted point must be in the broker ledger with its original payload under the sequence number first announced to the send hook, a sequence number never carries two contents, close totals match.", "3/C02"),
 "C05": ("fault_enumeration", "Seeded search over 1-4 failures (cuts at any frame boundary, silent peers, dial/token failures, cut handshakes, resume refusal/conflict, zero-latency redials) with 0-3 upstreams and downstreams and open/metadata/call operations in flight; after healing every stream must work (probe data crosses) or be reported closed with a cause, operations must have been retried, tokens are fresh per ConnectRequest, notifications are counted per outage.", "3/C05"),
 "C20": ("exploration", "Seeded search over write histories x flush policies/parameters x concurrent Flush calls and State() snapshots; barrier, per-policy cut points (running-sum model for the size policy, per-write cuts for immediate, nothing before Flush/Close for none, interval bound on the fake clock), snapshot conservation and empty-chunk oracles on the broker ledger.", "3/C20"),
}
# filled in as checks are built
EXTRA = os.path.join(V, "bin", "manifest_extra.json")
if os.path.exists(EXTRA):
    for k, v in json.load(open(EXTRA)).items():
        claimed[k] = tuple(v)

na_reason = {
 "C11": "pure function of one message and one encoding name: no schedule, clock, peer, fault or history for a simulator to control (DESIGN.md section 4); property-based testing would be a different technique",
 "C17": "pure functions of a parameter set (marshal/unmarshal/validate/derive): nothing for a simulator to schedule or fault (DESIGN.md section 4)",
}

checks = []
for pid in sorted(claimed):
    lvl, text, ref = claimed[pid]
    checks.append(dict(property_id=pid, quick_cmd="bin/check %s --tier quick" % pid, thorough_cmd="bin/check %s --tier thorough" % pid,
        evidence_file="evidence/%s.json" % pid, replay_cmd_template="bin/check %s --replay {path}" % pid, engine="dsim",
        level_claimed=dict(category=lvl, text=text, design_ref=ref), level_note=NOTE, technique=TECH))
na = []
for p in props:
    if p["id"] in claimed:
        continue
    na.append(dict(property_id=p["id"], reason=na_reason.get(p["id"], "check not built yet in this revision (planned, see DESIGN.md section 3); not claimed until its check exists")))
hooks_commit = "8427baf"
m = dict(version=1, setup_cmd="bin/setup.sh",
    hooks=dict(guard="verif", enable="go1.26.8 test -c -tags verif on an instrumented scratch copy of /repo (bin/build.sh)",
        baseline_off_cmd="cd /repo && go test -mod=mod -json -vet=off -count=1 -timeout 25m ./...",
        source_commits=[hooks_commit], add_only=True),
    engines=[dict(name="dsim", path="dsim/", serves_properties=sorted(claimed),
        kind_free_text="deterministic simulation with fault injection: seeded scheduler + simulated network + broker reference model around the real library inside a testing/synctest bubble; AST instrumenter (channel-based mutexes, seeded yield points)")],
    checks=checks, not_applicable=na,
    notes="Checks rebuild from /repo's working tree into a scratch directory under /var/tmp (removed afterwards). Exit 2 = build/infrastructure trouble. Known findings: known_findings.json.")
json.dump(m, open(os.path.join(V, "MANIFEST.json"), "w"), indent=1)
print("claimed:", sorted(claimed), "not_applicable:", [x["property_id"] for x in na])
