#!/bin/bash
# usage: build.sh <scratch-dir> [race]
# Copies /repo's working tree to <scratch>/repo, instruments it, copies the
# harness to <scratch>/dsim and builds <scratch>/dsim.test (and dsim.race.test).
set -euo pipefail
export GOFLAGS=-mod=mod GOPROXY=off GOSUMDB=off GOTOOLCHAIN=local CGO_ENABLED=${CGO_ENABLED:-0}
GO=go1.26.8
S=$1
V=$(cd "$(dirname "$0")/.." && pwd)
mkdir -p "$S"
R=${VERIF_REPO:-/repo}
rsync -a --delete --exclude .git "$R/" "$S/repo/"
rsync -a --delete --exclude '*.test' "$V/dsim/" "$S/dsim/"
if [ ! -x "$V/build/instr" ] || [ "$V/instr/cmd/main.go" -nt "$V/build/instr" ]; then
  mkdir -p "$V/build"
  (cd "$V/instr" && $GO build -o "$V/build/instr" ./cmd)
fi
YF=${VERIF_YIELDS:-true}
"$V/build/instr" -root "$S/repo" -verifsync "$V/instr/verifsync" -yields=$YF -sites "$S/sites.json" > "$S/instr.json"
cp "$R/go.sum" "$S/dsim/go.sum"
cd "$S/dsim"
$GO test -c -tags verif -o "$S/dsim.test" . 
if [ "${2:-}" = race ]; then
  CGO_ENABLED=1 $GO test -c -race -tags verif -o "$S/dsim.race.test" .
fi
