//go:build race

package verifsync

import (
	"runtime"
	"unsafe"
)

// With the race detector the internal bookkeeping (a real mutex and wake-up
// channels) would add happens-before edges that real sync.RWMutex does not have
// (for example between two readers), hiding races. The bookkeeping is therefore
// made invisible (sync events ignored via RaceDisable, memory accesses of the
// bookkeeping functions via //go:norace) and the edges of sync.RWMutex are
// annotated explicitly.

func raceOff()                 { runtime.RaceDisable() }
func raceOn()                  { runtime.RaceEnable() }
func raceAcquire(p *byte)      { runtime.RaceAcquire(unsafe.Pointer(p)) }
func raceRelease(p *byte)      { runtime.RaceRelease(unsafe.Pointer(p)) }
func raceReleaseMerge(p *byte) { runtime.RaceReleaseMerge(unsafe.Pointer(p)) }
