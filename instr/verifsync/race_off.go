//go:build !race

package verifsync

func raceOff()                 {}
func raceOn()                  {}
func raceAcquire(p *byte)      {}
func raceRelease(p *byte)      {}
func raceReleaseMerge(p *byte) {}
