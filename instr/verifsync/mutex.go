// Package verifsync is copied into the instrumented scratch copy of the
// repository by /verif/instr. It provides drop-in replacements for sync.Mutex
// and sync.RWMutex whose waiters block on a channel receive. Inside a
// testing/synctest bubble a channel receive is a *durable* block, whereas a
// wait on a real sync.Mutex is not: with real mutexes one goroutine waiting for
// a lock that is held across a network round trip (iscp.Conn.wireConnMu) or
// across a back-off sleep (reconnect) would stop the simulator's quiescence
// detection and its fake clock for good. Semantics are those of sync.RWMutex:
// writers exclude everybody, a queued writer blocks later readers, hand-off is
// FIFO (a legal schedule of the real mutex).
package verifsync

import "sync"

type waiter struct {
	ch    chan struct{}
	write bool
}

// RWMutex replaces sync.RWMutex. The zero value is an unlocked mutex.
type RWMutex struct {
	mu      sync.Mutex // guards the fields below; never held while blocking
	writer  bool
	readers int
	q       []waiter

	readerSem, writerSem byte // addresses used for race-detector annotations only
}

// Lock locks for writing.
//
//go:norace
func (m *RWMutex) Lock() {
	raceOff()
	m.mu.Lock()
	if !m.writer && m.readers == 0 && len(m.q) == 0 {
		m.writer = true
		m.mu.Unlock()
	} else {
		w := waiter{ch: make(chan struct{}), write: true}
		m.q = append(m.q, w)
		m.mu.Unlock()
		<-w.ch
	}
	raceOn()
	raceAcquire(&m.readerSem)
	raceAcquire(&m.writerSem)
}

// TryLock tries to lock for writing.
//
//go:norace
func (m *RWMutex) TryLock() bool {
	raceOff()
	m.mu.Lock()
	ok := !m.writer && m.readers == 0 && len(m.q) == 0
	if ok {
		m.writer = true
	}
	m.mu.Unlock()
	raceOn()
	if ok {
		raceAcquire(&m.readerSem)
		raceAcquire(&m.writerSem)
	}
	return ok
}

// Unlock unlocks a write lock.
//
//go:norace
func (m *RWMutex) Unlock() {
	raceRelease(&m.readerSem)
	raceOff()
	m.mu.Lock()
	if !m.writer {
		m.mu.Unlock()
		raceOn()
		panic("verifsync: Unlock of unlocked RWMutex")
	}
	m.writer = false
	m.wake()
	m.mu.Unlock()
	raceOn()
	Point(unlockSite) // the goroutine may be descheduled right after it has released a lock
}

// RLock locks for reading.
//
//go:norace
func (m *RWMutex) RLock() {
	raceOff()
	m.mu.Lock()
	if !m.writer && len(m.q) == 0 {
		m.readers++
		m.mu.Unlock()
	} else {
		w := waiter{ch: make(chan struct{})}
		m.q = append(m.q, w)
		m.mu.Unlock()
		<-w.ch
	}
	raceOn()
	raceAcquire(&m.readerSem)
}

// TryRLock tries to lock for reading.
//
//go:norace
func (m *RWMutex) TryRLock() bool {
	raceOff()
	m.mu.Lock()
	ok := !m.writer && len(m.q) == 0
	if ok {
		m.readers++
	}
	m.mu.Unlock()
	raceOn()
	if ok {
		raceAcquire(&m.readerSem)
	}
	return ok
}

// RUnlock undoes one RLock.
//
//go:norace
func (m *RWMutex) RUnlock() {
	raceReleaseMerge(&m.writerSem)
	raceOff()
	m.mu.Lock()
	if m.readers <= 0 {
		m.mu.Unlock()
		raceOn()
		panic("verifsync: RUnlock of unlocked RWMutex")
	}
	m.readers--
	if m.readers == 0 {
		m.wake()
	}
	m.mu.Unlock()
	raceOn()
	Point(unlockSite)
}

// RLocker returns a Locker whose Lock/Unlock are RLock/RUnlock.
func (m *RWMutex) RLocker() sync.Locker { return (*rlocker)(m) }

type rlocker RWMutex

func (r *rlocker) Lock()   { (*RWMutex)(r).RLock() }
func (r *rlocker) Unlock() { (*RWMutex)(r).RUnlock() }

// wake grants the lock to the head of the queue; m.mu is held.
//
//go:norace
func (m *RWMutex) wake() {
	for len(m.q) > 0 {
		h := m.q[0]
		if h.write {
			if m.readers == 0 && !m.writer {
				m.writer = true
				m.q = m.q[1:]
				close(h.ch)
			}
			return
		}
		if m.writer {
			return
		}
		m.readers++
		m.q = m.q[1:]
		close(h.ch)
	}
}

// Mutex replaces sync.Mutex. The zero value is an unlocked mutex.
type Mutex struct {
	rw RWMutex
}

// Lock locks m.
func (m *Mutex) Lock() { m.rw.Lock() }

// TryLock tries to lock m.
func (m *Mutex) TryLock() bool { return m.rw.TryLock() }

// Unlock unlocks m.
func (m *Mutex) Unlock() { m.rw.Unlock() }
