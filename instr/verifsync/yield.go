package verifsync

import "sync/atomic"

var hook atomic.Pointer[func(int)]

// SetYieldHook installs (or, with nil, removes) the function called at every
// instrumented synchronisation site.
func SetYieldHook(f func(site int)) {
	if f == nil {
		hook.Store(nil)
		return
	}
	hook.Store(&f)
}

// Point is inserted by /verif/instr before statements that synchronise.
func Point(site int) {
	if h := hook.Load(); h != nil {
		(*h)(site)
	}
}

// unlockSite is the pseudo site of the yield point that follows every Unlock/RUnlock.
const unlockSite = -1
