// Command instr rewrites a scratch copy of the repository for simulation:
//
//  1. sync.Mutex / sync.RWMutex  ->  verifsync.Mutex / verifsync.RWMutex
//     (channel-based; a waiter is "durably blocked" for testing/synctest);
//  2. optionally, a call verifsync.Point(<site>) is inserted before every
//     statement that synchronises (Lock/Unlock/RLock/RUnlock, Cond Wait/Signal/
//     Broadcast, channel send/receive, select, go), so that a seeded hook can
//     yield the processor there.
//
// Only the standard library is used. Test files, examples and the verifsync
// package itself are left alone. The tool prints one JSON line with counts.
package main

import (
	"bytes"
	"encoding/json"
	"flag"
	"fmt"
	"go/ast"
	"go/format"
	"go/parser"
	"go/token"
	"os"
	"path/filepath"
	"strconv"
	"strings"
)

const vsyncPath = "github.com/aptpod/iscp-go/verifsync"

var (
	root    = flag.String("root", "", "root of the scratch copy")
	src     = flag.String("verifsync", "", "directory holding the verifsync package sources")
	yields  = flag.Bool("yields", true, "insert yield points")
	siteOut = flag.String("sites", "", "write the yield-site table (JSON) to this file")
)

type site struct {
	ID   int    `json:"id"`
	File string `json:"file"`
	Line int    `json:"line"`
	Kind string `json:"kind"`
}

var sites []site

func main() {
	flag.Parse()
	if *root == "" || *src == "" {
		fmt.Fprintln(os.Stderr, "usage: instr -root DIR -verifsync DIR")
		os.Exit(2)
	}
	// copy verifsync
	dst := filepath.Join(*root, "verifsync")
	must(os.MkdirAll(dst, 0o755))
	ents, err := os.ReadDir(*src)
	must(err)
	for _, e := range ents {
		if strings.HasSuffix(e.Name(), ".go") {
			b, err := os.ReadFile(filepath.Join(*src, e.Name()))
			must(err)
			must(os.WriteFile(filepath.Join(dst, e.Name()), b, 0o644))
		}
	}
	files, mutexes := 0, 0
	err = filepath.Walk(*root, func(p string, info os.FileInfo, err error) error {
		if err != nil {
			return err
		}
		rel, _ := filepath.Rel(*root, p)
		if info.IsDir() {
			switch {
			case rel == "verifsync", rel == "examples", rel == ".git", rel == "scripts", rel == "public",
				strings.HasSuffix(rel, "mock"), filepath.Base(rel) == "testdata":
				return filepath.SkipDir
			}
			return nil
		}
		if !strings.HasSuffix(p, ".go") || strings.HasSuffix(p, "_test.go") {
			return nil
		}
		n, changed, err := rewrite(p, rel)
		if err != nil {
			return fmt.Errorf("%s: %w", rel, err)
		}
		if changed {
			files++
		}
		mutexes += n
		return nil
	})
	must(err)
	if *siteOut != "" {
		b, _ := json.Marshal(sites)
		must(os.WriteFile(*siteOut, b, 0o644))
	}
	out, _ := json.Marshal(map[string]int{"files_rewritten": files, "mutex_refs": mutexes, "yield_sites": len(sites)})
	fmt.Println(string(out))
}

func must(err error) {
	if err != nil {
		fmt.Fprintln(os.Stderr, "instr:", err)
		os.Exit(2)
	}
}

func rewrite(path, rel string) (int, bool, error) {
	fset := token.NewFileSet()
	f, err := parser.ParseFile(fset, path, nil, parser.ParseComments)
	if err != nil {
		return 0, false, err
	}
	// the local name of package "sync" in this file
	syncName := ""
	for _, im := range f.Imports {
		if im.Path.Value == `"sync"` {
			syncName = "sync"
			if im.Name != nil {
				syncName = im.Name.Name
			}
		}
	}
	mut := 0
	otherSync := false
	if syncName != "" && syncName != "_" && syncName != "." {
		ast.Inspect(f, func(n ast.Node) bool {
			sel, ok := n.(*ast.SelectorExpr)
			if !ok {
				return true
			}
			id, ok := sel.X.(*ast.Ident)
			if !ok || id.Name != syncName || id.Obj != nil {
				return true
			}
			if sel.Sel.Name == "Mutex" || sel.Sel.Name == "RWMutex" {
				id.Name = "verifsync"
				mut++
			} else {
				otherSync = true
			}
			return true
		})
	}
	ny := 0
	if *yields {
		ny = insertYields(fset, f, rel)
	}
	if mut == 0 && ny == 0 {
		return 0, false, nil
	}
	// Inserted nodes have no positions, so position-based comment placement
	// could corrupt the output; keep only the comments that precede the
	// package clause (build constraints).
	kept := f.Comments[:0]
	for _, cg := range f.Comments {
		if cg.End() < f.Package {
			kept = append(kept, cg)
		}
	}
	f.Comments = kept
	f.Doc = nil
	// imports
	addImport(f, vsyncPath)
	if mut > 0 && !otherSync {
		removeImport(f, "sync")
	}
	var buf bytes.Buffer
	if err := format.Node(&buf, fset, f); err != nil {
		return 0, false, err
	}
	return mut, true, os.WriteFile(path, buf.Bytes(), 0o644)
}

func addImport(f *ast.File, path string) {
	for _, im := range f.Imports {
		if im.Path.Value == strconv.Quote(path) {
			return
		}
	}
	spec := &ast.ImportSpec{Path: &ast.BasicLit{Kind: token.STRING, Value: strconv.Quote(path)}}
	decl := &ast.GenDecl{Tok: token.IMPORT, Specs: []ast.Spec{spec}}
	// imports must precede other declarations
	f.Decls = append([]ast.Decl{decl}, f.Decls...)
	f.Imports = append(f.Imports, spec)
}

func removeImport(f *ast.File, path string) {
	q := strconv.Quote(path)
	for _, d := range f.Decls {
		gd, ok := d.(*ast.GenDecl)
		if !ok || gd.Tok != token.IMPORT {
			continue
		}
		out := gd.Specs[:0]
		for _, s := range gd.Specs {
			if s.(*ast.ImportSpec).Path.Value == q {
				continue
			}
			out = append(out, s)
		}
		gd.Specs = out
	}
	// drop empty import decls
	decls := f.Decls[:0]
	for _, d := range f.Decls {
		if gd, ok := d.(*ast.GenDecl); ok && gd.Tok == token.IMPORT && len(gd.Specs) == 0 {
			continue
		}
		decls = append(decls, d)
	}
	f.Decls = decls
}

// syncKind reports whether stmt itself (not nested blocks) synchronises.
func syncKind(s ast.Stmt) string {
	switch t := s.(type) {
	case *ast.CaseClause, *ast.CommClause:
		return "" // elements of a switch/select body; their bodies are handled on their own
	case *ast.SelectStmt:
		return "select"
	case *ast.GoStmt:
		return "go"
	case *ast.SendStmt:
		return "send"
	case *ast.LabeledStmt:
		return syncKind(t.Stmt)
	case *ast.DeferStmt:
		return ""
	case *ast.BlockStmt, *ast.IfStmt, *ast.SwitchStmt, *ast.TypeSwitchStmt:
		// nested lists are handled on their own; look only at the header
		kind := ""
		var hdr []ast.Node
		switch u := s.(type) {
		case *ast.IfStmt:
			if u.Init != nil {
				hdr = append(hdr, u.Init)
			}
			hdr = append(hdr, u.Cond)
		case *ast.SwitchStmt:
			if u.Init != nil {
				hdr = append(hdr, u.Init)
			}
			if u.Tag != nil {
				hdr = append(hdr, u.Tag)
			}
		}
		for _, h := range hdr {
			if k := exprKind(h); k != "" {
				kind = k
			}
		}
		return kind
	case *ast.ForStmt:
		return ""
	case *ast.RangeStmt:
		// "for v := range ch" receives; the body is handled on its own
		return ""
	}
	return exprKind(s)
}

func exprKind(n ast.Node) string {
	kind := ""
	ast.Inspect(n, func(n ast.Node) bool {
		switch t := n.(type) {
		case *ast.FuncLit:
			return false
		case *ast.UnaryExpr:
			if t.Op == token.ARROW {
				kind = "recv"
			}
		case *ast.CallExpr:
			if sel, ok := t.Fun.(*ast.SelectorExpr); ok {
				switch sel.Sel.Name {
				case "Lock", "Unlock", "RLock", "RUnlock":
					kind = "lock"
				case "Wait", "Signal", "Broadcast":
					kind = "cond"
				default:
					// sync/atomic functions: a goroutine may be descheduled between two atomic
					// operations (load, compute, store)
					if x, ok := sel.X.(*ast.Ident); ok && x.Name == "atomic" && kind == "" {
						kind = "atomic"
					}
				}
			}
		}
		return true
	})
	return kind
}

func insertYields(fset *token.FileSet, f *ast.File, rel string) int {
	n := 0
	var fix func(list []ast.Stmt) []ast.Stmt
	fix = func(list []ast.Stmt) []ast.Stmt {
		out := make([]ast.Stmt, 0, len(list)+4)
		for _, s := range list {
			if k := syncKind(s); k != "" {
				id := len(sites) + 1
				sites = append(sites, site{ID: id, File: rel, Line: fset.Position(s.Pos()).Line, Kind: k})
				out = append(out, &ast.ExprStmt{X: &ast.CallExpr{
					Fun:  &ast.SelectorExpr{X: ast.NewIdent("verifsync"), Sel: ast.NewIdent("Point")},
					Args: []ast.Expr{&ast.BasicLit{Kind: token.INT, Value: strconv.Itoa(id)}},
				}})
				n++
			}
			out = append(out, s)
		}
		return out
	}
	ast.Inspect(f, func(node ast.Node) bool {
		switch t := node.(type) {
		case *ast.BlockStmt:
			t.List = fix(t.List)
		case *ast.CaseClause:
			t.Body = fix(t.Body)
		case *ast.CommClause:
			t.Body = fix(t.Body)
		}
		return true
	})
	return n
}
