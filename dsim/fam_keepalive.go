package dsim

import (
	"fmt"
	"time"

	"github.com/aptpod/iscp-go/iscp"
	"github.com/aptpod/iscp-go/message"
)

// C15: keepalive detects a dead peer in bounded time and never drops a live one.
// Pongs are produced by a latency model inside the simulated link (bubble timers),
// so that pong delays are exact to the nanosecond of simulated time.

func init() { scenarios["C15"] = runC15 }

func runC15(s *Sim) {
	t := s.T
	bc := BrokerCfg{AutoReq: true, AutoAck: true, AutoPong: true, AutoCallAck: true, AutoAckComplete: true}
	y := newSys(s, bc)
	if t.Bool("json", 1, 4) {
		y.Enc = iscp.EncodingNameJSON
	}
	iv := Pick(t, "ping-iv", 10*time.Second, time.Second, 2*time.Second, 5*time.Second, 30*time.Second, 1500*time.Millisecond, 2500*time.Millisecond)
	to := Pick(t, "ping-to", time.Second, 2*time.Second, 5*time.Second, 1500*time.Millisecond)
	y.PingInterval, y.PingTimeout = iv, to
	mode := Pick(t, "mode", "live", "dead", "dead", "late-pong")
	s.Family = "keepalive-" + mode
	s.yieldDensity = Pick(t, "yield", 0, 0, 50)
	// wire resolution is whole seconds: what the peer is told may differ by less than one second
	var delay time.Duration
	silentAt := time.Duration(-1)
	switch mode {
	case "live":
		delay = Pick(t, "delay", time.Duration(0), to/2, to-time.Millisecond, time.Millisecond)
	case "dead":
		delay = Pick(t, "delay", time.Duration(0), to/2, time.Millisecond)
		k := t.Choose("answered-pings", 6) // the broker answers about k pings, then falls silent
		frac := Pick(t, "silent-frac", 0, 1, 250, 500, 999)
		silentAt = time.Duration(k)*iv + iv*time.Duration(frac)/1000
	case "late-pong":
		delay = to + Pick(t, "late-by", time.Millisecond, time.Second, to)
	}
	// many requests in flight across keepalive ticks (the broker is slow with their responses, prompt with
	// pongs): the keepalive exchange does not depend on how many requests are outstanding
	manyPending := 0
	if mode == "live" && t.Bool("many-pending-requests", 1, 4) {
		manyPending = Pick(t, "pending-n", 40, 33, 70)
	}
	// the silent peer also stops reading: writes block after the first ping it leaves unanswered
	stopReading := mode == "dead" && silentAt > delay && t.Bool("silent-peer-stops-reading", 1, 3)
	stopFirst := stopReading && t.Bool("stops-reading-before-the-next-ping", 1, 2)
	first := true
	s.Net.OnDial = func(l *Link) {
		l.pongModel = true
		l.pongSilentAt = -1
		if first {
			// the fault applies to the first connection; redials meet a healthy peer
			l.pongDelay, l.pongSilentAt = delay, silentAt
			l.stopReading = stopReading
			l.stopReadingFirst = stopReading && stopFirst
			first = false
		}
	}
	s.NewTasks(2 + manyPending)
	s.Start(0, y.connectOp())
	s.Wait()
	y.Pump()
	if y.ConnOp = s.ops[0]; !y.ConnOp.harvested || y.ConnOp.Err != nil {
		s.HarnessError("connect did not succeed: %v", y.ConnOp.Err)
		return
	}
	l0 := s.Net.Links[0]
	// announced parameters
	if req := l0.bc.Req; req != nil {
		if d := absDur(req.PingInterval - iv); d >= time.Second {
			s.Violate("C15.announced-interval", "", "ConnectRequest announces ping interval %v, configured %v", req.PingInterval, iv)
		}
		if d := absDur(req.PingTimeout - to); d >= time.Second {
			s.Violate("C15.announced-timeout", "", "ConnectRequest announces ping timeout %v, configured %v", req.PingTimeout, to)
		}
	}
	// concurrent application traffic
	traffic := t.Bool("traffic", 1, 2)
	var h *upH
	if traffic {
		op := s.Start(0, y.openUpOp(upSpec{QoS: message.QoSReliable, Policy: "immediate"}))
		s.Wait()
		y.Pump()
		if !op.harvested || op.Err != nil {
			s.HarnessError("open upstream did not succeed: %v", op.Err)
			return
		}
		h = y.Ups[0]
	}
	horizon := silentAt + iv + to + 5*time.Second
	switch mode {
	case "live":
		horizon = Pick(t, "horizon", 10*iv, 100*iv, time.Hour, 6*time.Hour)
	case "late-pong":
		horizon = iv + 2*to + 5*time.Second
	}
	step := Pick(t, "step", 100*time.Millisecond, 10*time.Millisecond, time.Second, iv/3+time.Millisecond)
	if mode == "live" && horizon > time.Hour/2 {
		step = Pick(t, "big-step", time.Minute, 7*time.Second, 10*time.Minute)
	}
	brokerPings := 0
	// a pong nobody asked for (foreign request id) shortly before the broker falls silent: it answers
	// no ping, the silence is detected as early as without it
	strayPong := mode == "dead" && t.Bool("stray-pong-before-silence", 1, 3)
	// inbound end-to-end calls that the application never picks up (it does not use ReceiveCall):
	// they must not get in the way of the keepalive exchange
	unconsumed := 0
	if mode == "live" && t.Bool("unconsumed-inbound-calls", 1, 4) {
		unconsumed = Pick(t, "unconsumed-n", 5, 12, 40, 300)
	}
	var pendingOps []*Op
	impatient := map[*Op]bool{}
	holdUntil := time.Duration(-1)
	if manyPending > 0 {
		s.Broker.HoldMetadata = true
		holdUntil = s.Now() + Pick(t, "pending-for", 3*iv+to, iv+time.Millisecond, 6*iv)
		for k := 0; k < manyPending; k++ {
			op := y.sendMetaOp(fmt.Sprintf("pending-%d", k))
			if k%4 == 1 {
				// some callers do not wait that long: their deadline passes, which is their business only
				op.CtxKind, op.Timeout = "deadline", Pick(t, "pending-deadline", time.Second, iv/2+time.Millisecond, 100*time.Millisecond)
				impatient[op] = true
			}
			pendingOps = append(pendingOps, s.Start(2+k, op))
		}
		s.Wait()
		s.StatN("env.requests-in-flight-across-keepalive-ticks", manyPending)
	}
	for s.Now() < horizon {
		if holdUntil >= 0 && s.Now() >= holdUntil {
			holdUntil = -1
			s.Broker.HoldMetadata = false
		}
		if strayPong && s.Now()+step >= silentAt {
			strayPong = false
			if b, err := l0.encode(&message.Pong{RequestID: 999998}); err == nil {
				s.mu.Lock()
				ok := !l0.isDead && !l0.clientClosed
				s.mu.Unlock()
				if ok {
					l0.rx <- b
					s.Stat("env.stray-pong-with-foreign-id")
				}
			}
		}
		if unconsumed > 0 && s.Now() > iv/2 {
			for _, l := range y.aliveLinks() {
				for k := 0; k < unconsumed; k++ {
					s.Broker.EmitCall(l, fmt.Sprintf("unconsumed-%d", k), "", "peer", "n", []byte("p"))
				}
				l.DeliverAll()
			}
			s.StatN("env.inbound-calls-nobody-receives", unconsumed)
			unconsumed = 0
		}
		if traffic && s.Idle(1) && t.Bool("write", 1, 3) {
			s.Start(1, y.writeOp(h, 1, dataID(0), []int{16}))
		}
		if t.Bool("broker-ping", 1, 8) {
			for _, l := range y.aliveLinks() {
				s.mu.Lock()
				peerGone := l.stopReading && (l.stalled || (l.stopReadingFirst && l.pongSilentAt >= 0 && s.Now() >= l.pongSilentAt)) // that peer neither reads nor writes any more
				s.mu.Unlock()
				if l.bc != nil && l.bc.Connected && !peerGone {
					if t.Bool("broker-ping-burst-behind-slow-link", 1, 3) {
						// several broker pings arrive back to back while the link does not take the
						// client's writes for a moment (no time passes): each gets its own pong
						k := Pick(t, "ping-burst", 2, 3, 5)
						l.StallWrites()
						var ids []uint32
						for j := 0; j < k; j++ {
							ids = append(ids, s.Broker.EmitPing(l))
							l.DeliverAll()
							s.Wait()
						}
						l.ResumeWrites()
						s.Wait()
						brokerPings += k
						s.Stat("env.broker-ping-burst-behind-slow-link")
						s.mu.Lock()
						answered := map[uint32]int{}
						for _, p := range l.PongLog {
							answered[p.ID]++
						}
						dead := l.isDead || l.clientClosed
						s.mu.Unlock()
						for _, id := range ids {
							if answered[id] != 1 && !dead {
								s.Violate("C15.broker-ping-unanswered", "burst", "broker pings %v arrived back to back while the link was slow to take writes: ping %d was answered %d times", ids, id, answered[id])
								break
							}
						}
						break
					}
					id := s.Broker.EmitPing(l)
					l.DeliverAll()
					s.Wait()
					brokerPings++
					found := false
					s.mu.Lock()
					for _, p := range l.PongLog {
						if p.ID == id {
							found = true
						}
					}
					dead := l.isDead || l.clientClosed
					s.mu.Unlock()
					if !found && !dead {
						s.Violate("C15.broker-ping-unanswered", "", "broker ping %d on %s was not answered with a pong carrying the same request id (no clock advance needed)", id, l)
					}
					break
				}
			}
		}
		y.flushLinks()
		if holdUntil < 0 {
			s.Broker.ReleaseAll()
		}
		y.flushLinks()
		s.Advance(step)
		s.steps++
	}
	s.Broker.HoldMetadata = false
	s.Broker.ReleaseAll()
	y.Pump()
	for _, op := range pendingOps {
		if impatient[op] && op.harvested && isCtxErr(op.Err) {
			continue
		}
		if len(s.Net.DialTimes) == 1 && (!op.harvested || op.Err != nil) {
			s.Violate("C15.live-peer-dropped", "request-lost", "SendMetadata(%s), one of %d requests answered late by a broker that answered every ping at once: returned=%v err=%s", op.Args, manyPending, op.harvested, errString(op.Err))
			break
		}
	}
	s.Nontrivial()
	s.mu.Lock()
	dials := append([]time.Duration(nil), s.Net.DialTimes...)
	pings := len(l0.PingLog)
	closed := l0.clientClosed
	s.mu.Unlock()
	switch mode {
	case "live":
		if len(dials) != 1 || closed || len(y.Disconnected) > 0 {
			s.Violate("C15.live-peer-dropped", fmt.Sprintf("delay<timeout"), "every pong arrived %v after its ping (timeout %v, interval %v) yet the client gave up the connection: dials=%v disconnected=%v after %d pings", delay, to, iv, dials, y.Disconnected, pings)
		}
	case "dead":
		bound := silentAt + iv + to + time.Millisecond
		if len(dials) < 2 {
			s.Violate("C15.dead-peer-not-detected", "", "peer silent from %v (interval %v, timeout %v): no redial until %v; pings sent=%d, transport closed by client=%v", silentAt, iv, to, s.Now(), pings, closed)
		} else if dials[1] > bound {
			s.Violate("C15.dead-peer-detected-late", "", "peer silent from %v (interval %v, timeout %v): redial at %v, bound %v", silentAt, iv, to, dials[1], bound)
		} else if dials[1] < silentAt && delay < to {
			s.Violate("C15.live-peer-dropped", "before-silence", "client redialled at %v although the peer answered every ping within %v until %v", dials[1], delay, silentAt)
		}
		if len(dials) >= 2 && len(y.Disconnected) == 0 {
			s.Violate("C15.no-disconnected-event", "", "the client redialled but reported no disconnected notification")
		}
	case "late-pong":
		bound := to + time.Millisecond // the first ping is sent at connect time
		if len(dials) < 2 {
			s.Violate("C15.dead-peer-not-detected", "late-pong", "pongs arrive %v after the ping (timeout %v): no redial until %v", delay, to, s.Now())
		} else if dials[1] > bound+iv {
			s.Violate("C15.dead-peer-detected-late", "late-pong", "pongs arrive %v after the ping (timeout %v): redial at %v", delay, to, dials[1])
		}
	}
	s.sample = map[string]any{"mode": mode, "interval": iv.String(), "timeout": to.String(), "pong_delay": delay.String(), "silent_at": silentAt.String(), "horizon": horizon.String(), "pings": pings, "dials": len(dials), "broker_pings": brokerPings}
	for _, tk := range s.tasks {
		if tk.busy != nil {
			s.CancelOp(tk.busy)
		}
	}
	s.Wait()
	s.Harvest()
	if s.Idle(0) {
		cop := y.closeConnOp()
		cop.CtxKind, cop.Timeout = "deadline", 30*time.Second
		s.Start(0, cop)
		s.Wait()
		y.PumpUntil(func() bool { return cop.harvested }, time.Second, 40*time.Second)
	}
	y.teardown()
}

func absDur(d time.Duration) time.Duration {
	if d < 0 {
		return -d
	}
	return d
}
