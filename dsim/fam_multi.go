package dsim

import (
	"context"
	"errors"
	"fmt"
	"sort"
	"time"

	"github.com/aptpod/iscp-go/transport"
	"github.com/aptpod/iscp-go/transport/multi"
)

// C19: the multi-transport over scripted members.

func init() { scenarios["C19"] = runC19 }

// scriptedNICs is a NIC event source driven by the scheduler.
type scriptedNICs chan string

func (c scriptedNICs) Subscribe() <-chan string { return c }

func runC19(s *Sim) {
	t := s.T
	s.Family = "multi-transport"
	s.yieldDensity = Pick(t, "yield", 0, 0, 50)
	nMem := Pick(t, "nmembers", 2, 1, 3, 4)
	ids := []transport.TransportID{"a", "b", "c", "d"}[:nMem]
	tm := multi.TransportMap{}
	mem := map[transport.TransportID]*member{}
	for i, id := range ids {
		m := &member{s: s, id: i, rx: make(chan []byte, 4096), fail: make(chan struct{}), closed: make(chan struct{}),
			cfg: transport.DialConfig{EncodingName: transport.EncodingNameProtobuf, TransportID: id, TransportGroupID: "grp", TransportGroupTotalCount: nMem, TransportGroupIndex: i}}
		m.unrel = t.Bool("member-has-unreliable-side", 2, 3)
		tm[id] = m
		mem[id] = m
	}
	mode := Pick(t, "scheduler", "event", "round-robin", "last-used", "event")
	s.Family = "multi-transport/" + mode
	initial := ids[t.Choose("initial", nMem)]
	badInitial := t.Bool("bad-initial", 1, 6)
	if badInitial {
		initial = Pick(t, "bad-initial-id", transport.TransportID(""), transport.TransportID("zz"))
	}
	interval := Pick(t, "poll-interval", time.Second, 5*time.Second)
	evCh := make(chan transport.TransportID, 64)
	nicCh := make(chan string, 64)
	// event source: either the harness's own subscriber or the library's NIC subscriber fed by a scripted
	// NIC listener (interface names mapped to members; a name nobody mapped selects the empty id)
	useNIC := mode == "event" && t.Bool("nic-event-subscriber", 1, 2)
	emit := func(id transport.TransportID) {
		if useNIC {
			nicCh <- "nic-" + string(id)
			return
		}
		evCh <- id
	}
	cfg := multi.TransportConfig{TransportMap: tm, InitialTransportID: initial}
	switch mode {
	case "event":
		cfg.SchedulerMode = multi.SchedulerModeEvent
		cfg.EventScheduler = &multi.EventScheduler{Subscriber: multi.EventSchedulerFunc(func(ctx context.Context) <-chan transport.TransportID { return evCh })}
		if useNIC {
			nm := map[string]transport.TransportID{"nic-zz": "zz"}
			for _, id := range ids {
				nm["nic-"+string(id)] = id
			}
			cfg.EventScheduler = &multi.EventScheduler{Subscriber: &multi.NICEventSubscriber{NICManager: scriptedNICs(nicCh), NICTransportID: nm}}
			s.Stat("env.nic-event-subscriber")
		}
	case "round-robin":
		cfg.SchedulerMode = multi.SchedulerModePolling
		cfg.PollingScheduler = &multi.PollingScheduler{Poller: multi.NewRoundRobinPoller(append([]transport.TransportID(nil), ids...)), Interval: interval}
	case "last-used":
		cfg.SchedulerMode = multi.SchedulerModePolling
		cfg.PollingScheduler = &multi.PollingScheduler{Poller: multi.NewLastReadPoller(), Interval: interval}
	}
	nWriters := Pick(t, "nwriters", 1, 2)
	readerT, ctlT := nWriters, nWriters+1
	s.NewTasks(nWriters + 2)
	var tr *multi.Transport
	mk := &Op{Name: "multi.NewTransport", Args: fmt.Sprintf("%s initial=%q members=%v", mode, initial, ids), Run: func(ctx context.Context) (any, error) {
		x, err := multi.NewTransport(cfg)
		if err != nil {
			return nil, err
		}
		return x, nil
	}}
	s.Start(ctlT, mk)
	s.Wait()
	s.Harvest()
	if !mk.harvested {
		s.Violate("C19.constructor-blocks", "", "multi.NewTransport does not return")
		return
	}
	if mk.Err != nil {
		if badInitial {
			s.Stat("c19.bad-initial-rejected") // rejecting the configuration is one of the two accepted answers
			s.Nontrivial()
			s.stopTasks()
			s.Wait()
			return
		}
		s.HarnessError("multi.NewTransport: %v", mk.Err)
		return
	}
	if mk.Panic != "" {
		return
	}
	tr = mk.Res.(*multi.Transport)
	// model of the selection
	isMember := func(id transport.TransportID) bool { _, ok := mem[id]; return ok }
	cur := initial // may be a non-member: then every call must still not panic
	known := isMember(cur)
	steps := Pick(t, "steps", 50, 20, 100)
	if s.Tier == "thorough" {
		steps *= 3
	}
	type wrec struct {
		op      *Op
		payload string
		expect  transport.TransportID
		exact   bool
		// unreliable: written through AsUnreliable()
		unreliable bool
	}
	var writes []*wrec
	var delivered []string
	var reads []*Op
	n := 0
	rrTicks := 0
	lastTick := s.Now()
	var lastReadFrom transport.TransportID
	memberFaults := 0
	if nMem > 1 && t.Bool("member-faults", 1, 4) {
		memberFaults = 1
	}
	for step := 0; step < steps; step++ {
		var acts []Action
		for ti := 0; ti < nWriters; ti++ {
			ti := ti
			if s.Idle(ti) {
				acts = append(acts, Action{Name: fmt.Sprintf("write t%d", ti), W: 8, Do: func() {
					n++
					p := fmt.Sprintf("w|%d", n)
					w := &wrec{payload: p, expect: cur, exact: known && mode != "last-used"}
					w.op = &Op{Name: "Write", Args: p, Run: func(ctx context.Context) (any, error) { return nil, tr.Write([]byte(p)) }}
					writes = append(writes, w)
					s.Start(ti, w.op)
				}})
			}
		}
		if s.Idle(readerT) {
			acts = append(acts, Action{Name: "read", W: 6, Do: func() {
				op := &Op{Name: "Read", Run: func(ctx context.Context) (any, error) {
					b, err := tr.Read()
					if err != nil {
						return nil, err
					}
					return string(b), nil
				}}
				reads = append(reads, op)
				s.Start(readerT, op)
			}})
		}
		if s.Idle(ctlT) {
			acts = append(acts, Action{Name: "unreliable-write", W: 3, Do: func() {
				// the unreliable side is the currently selected member's
				n++
				p := fmt.Sprintf("u|%d", n)
				w := &wrec{payload: p, expect: cur, exact: known && mode != "last-used", unreliable: true}
				w.op = &Op{Name: "AsUnreliable+Write", Args: p, Run: func(ctx context.Context) (any, error) {
					u, ok := tr.AsUnreliable()
					if !ok || u == nil {
						return "none", nil
					}
					return "written", u.Write([]byte(p))
				}}
				writes = append(writes, w)
				s.Start(ctlT, w.op)
			}})
			acts = append(acts, Action{Name: "inspect", W: 2, Do: func() {
				which := t.Choose("inspect-which", 3)
				s.Start(ctlT, &Op{Name: []string{"NegotiationParams", "AsUnreliable", "Name"}[which], Run: func(ctx context.Context) (any, error) {
					switch which {
					case 0:
						_ = tr.NegotiationParams()
					case 1:
						tr.AsUnreliable()
					default:
						_ = tr.Name()
					}
					return nil, nil
				}})
			}})
		}
		acts = append(acts, Action{Name: "arrival", W: 6, Do: func() {
			id := ids[t.Choose("arr-member", nMem)]
			n++
			p := fmt.Sprintf("r|%s|%d", id, n)
			if mem[id].deliver([]byte(p)) {
				delivered = append(delivered, p)
				lastReadFrom = id
			}
		}})
		if memberFaults > 0 {
			acts = append(acts, Action{Name: "member-read-fault", W: 1, Do: func() {
				// one member's connection breaks; what the others deliver is still returned exactly once
				var alive []transport.TransportID
				for _, id := range ids {
					s.mu.Lock()
					ok := !mem[id].failed
					s.mu.Unlock()
					if ok {
						alive = append(alive, id)
					}
				}
				if len(alive) < 2 {
					return
				}
				memberFaults--
				id := alive[t.Choose("fault-member", len(alive))]
				mem[id].failRead(errors.New("dsim: connection reset"))
				s.Stat("fault.member-read-error")
				s.Logf("fault: member %q read error", id)
			}})
		}
		if mode == "event" {
			acts = append(acts, Action{Name: "select", W: 5, Do: func() {
				var id transport.TransportID
				switch t.Choose("sel-kind", 8) {
				case 0:
					id = ""
					s.Stat("env.select-empty-id")
				case 1:
					id = "zz"
					s.Stat("env.select-non-member")
				default:
					id = ids[t.Choose("sel-member", nMem)]
				}
				emit(id)
				if isMember(id) {
					cur, known = id, true
				}
				s.Logf("select %q", id)
			}})
		} else {
			acts = append(acts, Action{Name: "advance", W: 4, Do: func() {
				s.Advance(Pick(t, "adv", interval, interval/3, 2*interval+time.Millisecond))
				for s.Now()-lastTick >= interval {
					lastTick += interval
					rrTicks++
					if mode == "round-robin" {
						cur, known = ids[(rrTicks-1)%nMem], true
					}
				}
			}})
		}
		s.Step(acts)
	}
	_ = lastReadFrom
	// ---- a consumer that falls far behind: more unread messages than any internal queue holds ----
	if t.Bool("backlog-of-unread-messages", 1, 12) {
		nb := Pick(t, "backlog-n", 1100, 1500, 2300)
		sent := 0
		for k := 0; k < nb; k++ {
			id := ids[t.Choose("arr-member", nMem)]
			n++
			p := fmt.Sprintf("r|%s|%d", id, n)
			if mem[id].deliver([]byte(p)) {
				delivered = append(delivered, p)
				sent++
			}
		}
		s.Wait()
		s.Harvest()
		s.StatN("env.unread-backlog-on-members", sent)
	}
	// ---- probe: selections arriving while a Write is held up inside the selected member ----
	if mode == "event" && nMem > 1 && known && s.Idle(0) && t.Bool("probe-selections-behind-slow-write", 1, 3) {
		a := cur
		gate := make(chan struct{})
		s.mu.Lock()
		mem[a].writeGate = gate
		s.mu.Unlock()
		n++
		pa := fmt.Sprintf("w|%d", n)
		wa := &wrec{payload: pa, expect: a, exact: true}
		wa.op = &Op{Name: "Write", Args: pa, Run: func(ctx context.Context) (any, error) { return nil, tr.Write([]byte(pa)) }}
		writes = append(writes, wa)
		s.Start(0, wa.op)
		s.Wait()
		var others []transport.TransportID
		for _, id := range ids {
			if id != a {
				others = append(others, id)
			}
		}
		k := Pick(t, "probe-selections", 3, 5, 9)
		last := a
		for j := 0; j < k; j++ {
			id := a
			if j%2 == 1 || j == k-1 {
				id = others[t.Choose("probe-sel-member", len(others))]
			}
			emit(id)
			last = id
			s.Wait()
		}
		s.StatN("env.selections-while-a-write-is-held-up", k)
		s.mu.Lock()
		mem[a].writeGate = nil
		s.mu.Unlock()
		close(gate)
		s.Wait()
		s.Harvest()
		cur = last
		if s.Idle(0) {
			n++
			pb := fmt.Sprintf("w|%d", n)
			wb := &wrec{payload: pb, expect: cur, exact: true}
			wb.op = &Op{Name: "Write", Args: pb, Run: func(ctx context.Context) (any, error) { return nil, tr.Write([]byte(pb)) }}
			writes = append(writes, wb)
			s.Start(0, wb.op)
			s.Wait()
			s.Harvest()
		}
	}
	// settle: read everything that was delivered
	for k := 0; k < 4096; k++ {
		got := 0
		for _, r := range reads {
			if r.harvested && r.Err == nil {
				got++
			}
		}
		if got >= len(delivered) || !s.Idle(readerT) {
			break
		}
		op := &Op{Name: "Read", Run: func(ctx context.Context) (any, error) {
			b, err := tr.Read()
			if err != nil {
				return nil, err
			}
			return string(b), nil
		}}
		reads = append(reads, op)
		s.Start(readerT, op)
		s.Wait()
		s.Harvest()
	}
	s.Nontrivial()
	// ---- oracle ----
	accepted := map[string][]transport.TransportID{}
	s.mu.Lock()
	for id, m := range mem {
		for _, b := range m.accepted {
			accepted[string(b)] = append(accepted[string(b)], id)
		}
		for _, b := range m.unrelAccepted {
			accepted[string(b)] = append(accepted[string(b)], id)
		}
	}
	s.mu.Unlock()
	for _, w := range writes {
		if w.unreliable {
			if !w.op.harvested || w.op.Panic != "" {
				continue
			}
			a := accepted[w.payload]
			res, _ := w.op.Res.(string)
			s.mu.Lock()
			hasSide := mem[w.expect] != nil && mem[w.expect].unrel
			s.mu.Unlock()
			switch {
			case !w.exact:
			case res == "none" && hasSide:
				s.Violate("C19.unreliable-side", "missing", "AsUnreliable reported no unreliable side although the selected member %q has one", w.expect)
			case res == "written" && w.op.Err == nil && (len(a) != 1 || a[0] != w.expect):
				s.Violate("C19.unreliable-side", "routing", "a datagram written through AsUnreliable() went to %v while the scheduler had selected %q", a, w.expect)
			case res == "written" && !hasSide:
				s.Violate("C19.unreliable-side", "phantom", "AsUnreliable reported an unreliable side although the selected member %q has none", w.expect)
			}
			continue
		}
		if !w.op.harvested {
			s.Violate("C19.write-blocks", "", "Write(%s) did not return", w.payload)
			continue
		}
		if w.op.Panic != "" {
			continue // reported as C19.api-panic
		}
		a := accepted[w.payload]
		if w.op.Err == nil {
			if len(a) != 1 {
				s.Violate("C19.write-routing", "count", "Write(%s) returned nil and reached %d members %v", w.payload, len(a), a)
			} else if w.exact && a[0] != w.expect {
				s.Violate("C19.write-routing", mode, "Write(%s) went to member %q while the scheduler had selected %q (mode %s)", w.payload, a[0], w.expect, mode)
			}
		}
	}
	var got []string
	for _, r := range reads {
		if r.harvested && r.Err == nil {
			got = append(got, r.Res.(string))
		}
	}
	sort.Strings(got)
	want := append([]string(nil), delivered...)
	sort.Strings(want)
	ma, mb := setDiff(want, got)
	if len(ma) > 0 || len(mb) > 0 {
		s.Violate("C19.read-merge", "", "members delivered %d messages, Read returned %d: never returned %v, returned but not delivered (or twice) %v", len(want), len(got), firstN(ma, 4), firstN(mb, 4))
	}
	// counters are the sums over members
	var tx, rx uint64
	s.mu.Lock()
	for _, m := range mem {
		tx += m.tx
		rx += m.rxb
	}
	s.mu.Unlock()
	if tr.TxBytesCounterValue() != tx || tr.RxBytesCounterValue() != rx {
		s.Violate("C19.counters", "", "counters tx=%d rx=%d, member sums tx=%d rx=%d", tr.TxBytesCounterValue(), tr.RxBytesCounterValue(), tx, rx)
	}
	// Close closes every member
	for _, tk := range s.tasks {
		if tk.busy != nil && tk.busy.Name != "Read" {
			s.Violate("C19.call-blocks", tk.busy.Name, "%s did not return", tk.busy.Name)
		}
	}
	if t.Bool("member-close-errors", 1, 3) {
		// closing a member tears it down but may report an error (e.g. the close frame could not be
		// sent): the other members are closed all the same
		s.mu.Lock()
		for _, id := range ids {
			if t.Bool("close-err-this", 1, 2) {
				mem[id].closeErr = errors.New("dsim: close frame could not be sent")
			}
		}
		s.mu.Unlock()
	}
	if t.Bool("every-member-read-fails-before-close", 1, 4) {
		// every member's connection breaks (the members themselves are not closed): Close still closes them all
		for _, id := range ids {
			mem[id].failRead(errors.New("dsim: connection reset"))
		}
		s.Stat("fault.every-member-read-error")
		s.Wait()
		s.Harvest()
	}
	if s.Idle(ctlT) {
		cl := &Op{Name: "Close", Run: func(ctx context.Context) (any, error) { return nil, tr.Close() }}
		s.Start(ctlT, cl)
		s.Wait()
		s.Harvest()
		if cl.harvested && cl.Panic == "" {
			s.mu.Lock()
			for id, m := range mem {
				if !m.isClosed {
					s.viol = append(s.viol, Violation{Rule: "C19.close-leaves-member-open", Locus: "", Msg: fmt.Sprintf("Close returned but member %q was not closed", id)})
				}
			}
			s.mu.Unlock()
		}
	}
	s.sample = map[string]any{"mode": mode, "members": nMem, "initial": string(initial), "writes": len(writes), "arrivals": len(delivered)}
	for _, m := range mem {
		m.failRead(transport.ErrAlreadyClosed)
	}
	s.Wait()
	for i := 0; i < 5; i++ {
		time.Sleep(2 * interval)
		s.Wait()
	}
	s.Harvest()
	if !s.AnyBusy() {
		s.stopTasks()
	}
	s.Wait()
}
