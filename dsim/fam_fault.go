package dsim

import (
	"fmt"
	"time"

	"github.com/aptpod/iscp-go/iscp"
	"github.com/aptpod/iscp-go/message"
	"github.com/google/uuid"
)

// Fault family: transport failures at tape-chosen positions, redial problems,
// resume refusals. C02 (reliable upstream loses nothing), C05 (the connection
// and every stream survive or are reported closed).

func init() {
	scenarios["C02"] = func(s *Sim) { runFaultFamily(s, "C02") }
	scenarios["C05"] = func(s *Sim) { runFaultFamily(s, "C05") }
}

type faultCtx struct {
	y           *Sys
	prop        string
	faultsLeft  int
	cuts        int
	resumeCut   map[uuid.UUID]bool // a resume exchange of this stream was cut by a link failure
	refused     map[uuid.UUID]bool // the broker was told to refuse / forget this stream
	miscOps     []*Op
	outageOps   []*Op // ops started while no link was established
	established int   // number of links on which the broker answered the handshake
	fastRedial  bool
	lostCalls   map[string]bool
}

func runFaultFamily(s *Sim, prop string) {
	t := s.T
	if prop == "C02" && t.Seed%3 == 0 {
		// every third seed executes one point of the deterministic cut sweep
		runC02Sweep(s, int(t.Seed/3))
		return
	}
	if prop == "C02" && t.Bool("close-during-resume-handshake", 1, 20) {
		runC02CloseDuringResume(s)
		return
	}
	s.Family = "fault-cuts"
	bc := BrokerCfg{
		AutoReq:     !t.Bool("manual-req", 1, 6),
		AutoAck:     !t.Bool("manual-ack", 2, 3),
		AutoPong:    true,
		AutoCallAck: true, AutoAckComplete: true,
		AliasAtOpen: t.Bool("alias-at-open", 1, 2),
		AliasInAck:  t.Bool("alias-in-ack", 1, 2),
	}
	// stream id aliases numbered from 0 on every connection: after a redial a stream may be given
	// alias 0 although it had another one before, and a sibling the alias it had
	bc.AliasFromZero = t.Bool("alias-from-zero", 1, 3)
	// a long backlog of unacknowledged chunks (more than the 1024 the wire layer buffers per stream):
	// everything the broker has not acknowledged must still be retransmitted after a resume
	bulk := 0
	if prop == "C02" && t.Bool("bulk-unacked", 1, 25) {
		bulk = Pick(t, "bulk-n", 1100, 1030, 1500)
		bc.AutoAck = false
	}
	y := newSys(s, bc)
	fc := &faultCtx{y: y, prop: prop, resumeCut: map[uuid.UUID]bool{}, refused: map[uuid.UUID]bool{}, lostCalls: map[string]bool{}}
	if t.Bool("json", 1, 4) {
		y.Enc = iscp.EncodingNameJSON
	}
	y.PingInterval = Pick(t, "ping-iv", 10*time.Second, time.Second, 2*time.Second, 5*time.Second, 30*time.Second)
	y.PingTimeout = Pick(t, "ping-to", time.Second, 2*time.Second, 5*time.Second)
	s.yieldDensity = Pick(t, "yield", 0, 0, 20, 200)
	// (not under the race detector's burst stepping: the inline handshake runs the broker model on a
	// library goroutine, which there is not separated from the scheduler's own use of it by a quiescence point)
	fc.fastRedial = t.Bool("fast-redial", 1, 4) && !s.RaceMode

	nUp, nDown := 1, 0
	if prop == "C02" {
		nUp = Pick(t, "nup", 1, 1, 2, 3)
	} else {
		nUp = Pick(t, "nup", 1, 0, 2, 3)
		nDown = Pick(t, "ndown", 1, 0, 2, 3)
	}
	fc.faultsLeft = Pick(t, "nfaults", 1, 1, 2, 3)
	if prop == "C05" {
		fc.faultsLeft = Pick(t, "nfaults5", 1, 2, 3, 4)
	}
	maxSteps := Pick(t, "steps", 40, 15, 80, 120)
	if s.Tier == "thorough" {
		maxSteps *= Pick(t, "steps-x", 1, 2, 3)
	}
	nIDs := Pick(t, "nids", 2, 1, 4)

	s.Net.OnLost = func(l *Link, dir string, m message.Message) {
		switch x := m.(type) {
		case *message.UpstreamResumeRequest:
			fc.resumeCut[x.StreamID] = true
		case *message.DownstreamResumeRequest:
			fc.resumeCut[x.StreamID] = true
		case *message.UpstreamCall:
			fc.lostCalls[x.Name] = true // accepted by a link, then lost with it
		case *message.UpstreamResumeResponse, *message.DownstreamResumeResponse:
			// attribute through the request id -> stream mapping kept by the broker
			for _, u := range s.Broker.Ups {
				for _, r := range u.Resumes {
					if r.Link == l.ID {
						fc.resumeCut[u.ID] = true
					}
				}
			}
			for _, d := range s.Broker.Downs {
				for _, r := range d.Resumes {
					if r.Link == l.ID {
						fc.resumeCut[d.ID] = true
					}
				}
			}
		}
	}

	// tasks: 0 = control (connect, probes, closes), then one writer per upstream, one reader per
	// downstream, one misc task
	nTasks := 1 + nUp + nDown + 1
	misc := nTasks - 1
	s.NewTasks(nTasks)
	s.Start(0, y.connectOp())
	s.Wait()
	y.Pump()
	if y.ConnOp = s.ops[0]; !y.ConnOp.harvested || y.ConnOp.Err != nil {
		s.HarnessError("connect did not succeed: %v", y.ConnOp.Err)
		return
	}
	for i := 0; i < nUp; i++ {
		sp := drawUpSpec(s, prop)
		if prop == "C02" && i == 0 {
			sp.QoS = message.QoSReliable
			if bulk > 0 {
				sp.Policy = "immediate"
			}
		}
		sp.CloseTimeout = Pick(t, "closeto", time.Duration(0), 30*time.Second)
		sp.AckTimeout = Pick(t, "ackto", time.Duration(0), 0, 3*time.Second, time.Hour)
		op := s.Start(0, y.openUpOp(sp))
		s.Wait()
		y.Pump()
		if !op.harvested || op.Err != nil {
			s.HarnessError("open upstream did not succeed: %v", op.Err)
			return
		}
	}
	for i := 0; i < nDown; i++ {
		sp := downSpec{QoS: Pick(t, "dqos", message.QoSUnreliable, message.QoSReliable, message.QoSPartial), Sources: []string{"node-1", "node-2", "node-3"},
			AckFlush: Pick(t, "ackflush", time.Duration(0), 10*time.Millisecond, time.Second)}
		op := s.Start(0, y.openDownOp(sp))
		s.Wait()
		y.Pump()
		if !op.harvested || op.Err != nil {
			s.HarnessError("open downstream did not succeed: %v", op.Err)
			return
		}
	}
	baseUps, baseDowns := len(y.Ups), len(y.Downs)
	if bulk > 0 {
		s.Stat("env.bulk-unacked-backlog")
		h := y.Ups[0]
		for i := 0; i < bulk; i++ {
			op := s.Start(1, y.writeOp(h, 1, dataID(i%nIDs), []int{8}))
			s.Wait()
			s.Harvest()
			if !op.harvested {
				s.HarnessError("bulk write %d does not return on a healthy connection", i)
				return
			}
		}
		// the frames are still in flight: the fault decides how many of them the broker sees
		if t.Bool("bulk-fault-now", 3, 4) {
			fc.fault()
		}
	}

	netActs := func(acts []Action) []Action {
		for _, l := range y.aliveLinks() {
			l := l
			if l.PendingC2B() > 0 {
				acts = append(acts, Action{Name: "ingest " + l.String(), W: 5, Do: func() { l.IngestOne() }})
			}
			if l.PendingB2C() > 0 {
				acts = append(acts, Action{Name: "deliver " + l.String(), W: 5, Do: func() { l.DeliverOne() }})
			}
		}
		if len(s.Broker.Pend) > 0 {
			acts = append(acts, Action{Name: "release", W: 5, Do: func() { y.releaseOne() }})
		}
		acts = append(acts, Action{Name: "pump", W: 5, Do: func() { y.Pump() }})
		acts = append(acts, Action{Name: "advance", W: 5, Do: func() {
			y.Advance(Pick(t, "adv", 10*time.Millisecond, time.Millisecond, 100*time.Millisecond, time.Second, 3*time.Second, 12*time.Second))
		}})
		return acts
	}

	miscN := 0
	for step := 0; step < maxSteps; step++ {
		var acts []Action
		for i := 0; i < baseUps; i++ {
			h, ti := y.Ups[i], 1+i
			if !s.Idle(ti) || h.U == nil {
				continue
			}
			acts = append(acts, Action{Name: fmt.Sprintf("write u%d", i), W: 8, Do: func() {
				id := dataID(t.Choose("w-id", nIDs))
				n := Pick(t, "w-n", 1, 1, 2, 5)
				sizes := make([]int, n)
				for k := range sizes {
					sizes[k] = Pick(t, "w-size", 8, 24, 100, 1000)
				}
				if t.Bool("w-flush", 1, 8) {
					s.Start(ti, y.flushOp(h))
					return
				}
				s.Start(ti, y.writeOp(h, ti, id, sizes))
			}})
		}
		for i := 0; i < baseDowns; i++ {
			h, ti := y.Downs[i], 1+baseUps+i
			if h.D == nil {
				continue
			}
			if s.Idle(ti) {
				acts = append(acts, Action{Name: fmt.Sprintf("read d%d", i), W: 4, Do: func() { s.Start(ti, y.readOp(h)) }})
			}
			if h.B != nil && h.B.link != nil && h.B.link.Alive() {
				acts = append(acts, Action{Name: fmt.Sprintf("emit d%d", i), W: 4, Do: func() { fc.emit(h, false) }})
			}
		}
		if s.Idle(misc) && prop == "C05" {
			acts = append(acts, Action{Name: "misc-op", W: 5, Do: func() {
				miscN++
				var op *Op
				switch t.Choose("misc-kind", 4) {
				case 0:
					op = y.sendMetaOp(fmt.Sprintf("bt-%d", miscN))
				case 1:
					op = y.sendCallOp("call", fmt.Sprintf("call-%d", miscN), fmt.Sprintf("cp-%d", miscN), "")
				case 2:
					sp := drawUpSpec(s, prop)
					op = y.openUpOp(sp)
				default:
					op = y.openDownOp(downSpec{QoS: message.QoSReliable, Sources: []string{"node-1"}})
				}
				if t.Bool("misc-deadline", 1, 5) {
					op.CtxKind, op.Timeout = "deadline", Pick(t, "misc-to", time.Second, 20*time.Second)
				}
				if fc.connected() == nil {
					fc.outageOps = append(fc.outageOps, op)
				}
				fc.miscOps = append(fc.miscOps, op)
				s.Start(misc, op)
			}})
		}
		acts = netActs(acts)
		if fc.faultsLeft > 0 {
			acts = append(acts, Action{Name: "fault", W: 3, Do: func() { fc.fault() }})
		}
		s.Step(acts)
	}

	fc.settleAndJudge(baseUps, baseDowns)
}

// connected returns the link on which the broker currently has an established connection.
func (fc *faultCtx) connected() *Link {
	links := fc.y.allLinks()
	for i := len(links) - 1; i >= 0; i-- {
		l := links[i]
		if l.Alive() && l.bc != nil && l.bc.Connected && !l.blackhole {
			return l
		}
	}
	return nil
}

func (fc *faultCtx) emit(h *downH, probe bool) *sentChunk {
	s, t := fc.y.s, fc.y.s.T
	b := s.Broker
	r := b.Remote(t.Choose("e-remote", 3))
	id := dataID(t.Choose("e-id", 3))
	tag := fmt.Sprintf("d%d|%s|%d", h.Idx, id.Name, len(h.B.Sent)+1)
	g := sentGroup{ID: id, Points: []pt{{ID: id, Elapsed: time.Duration(len(h.B.Sent)+1) * time.Microsecond, Payload: tag}}}
	upFull := true
	if h.B.HasUpAlias(r.Info) && t.Bool("e-upalias", 1, 2) {
		upFull = false
	}
	if a := h.B.AliasOfData(id); a != 0 && t.Bool("e-idalias", 1, 2) {
		g.Alias = a
	}
	return b.EmitChunk(h.B, r, []sentGroup{g}, upFull, false)
}

// fault injects one fault chosen by the tape.
func (fc *faultCtx) fault() {
	y, s, t := fc.y, fc.y.s, fc.y.s.T
	fc.faultsLeft--
	l := fc.connected()
	kinds := []string{"cut", "cut", "cut-peer-close", "blackhole", "cut+dial-fail", "cut+token-fail", "cut+handshake-cut", "cut+refuse-resume", "cut+conflict-resume", "cut+forget-stream"}
	if fc.prop == "C02" {
		kinds = []string{"cut", "cut", "cut", "cut-peer-close", "blackhole", "cut+dial-fail", "cut+conflict-resume", "cut+handshake-cut"}
	}
	kind := kinds[t.Choose("fault-kind", len(kinds))]
	if l == nil {
		// nothing established: only redial trouble can be injected
		s.mu.Lock()
		s.Net.DialFail += Pick(t, "dialfail-n", 1, 2, 4)
		s.mu.Unlock()
		s.Stat("fault.dial-fail-armed")
		s.Logf("fault: dial-fail (no link established)")
		return
	}
	s.Nontrivial()
	switch kind {
	case "blackhole":
		l.Blackhole()
		s.Stat("fault.blackhole")
		s.Logf("fault: %s peer silently gone", l)
		return
	}
	// decide what is still exchanged before the link dies
	keepC := t.Choose("cut-keep-c2b", l.PendingC2B()+1)
	for i := 0; i < keepC; i++ {
		l.IngestOne()
	}
	relN := 0
	if len(s.Broker.Pend) > 0 {
		relN = t.Choose("cut-release", len(s.Broker.Pend)+1)
		for i := 0; i < relN && len(s.Broker.Pend) > 0; i++ {
			y.releaseOne()
		}
	}
	keepB := t.Choose("cut-keep-b2c", l.PendingB2C()+1)
	for i := 0; i < keepB; i++ {
		l.DeliverOne()
	}
	s.Wait()
	s.Harvest()
	lostC, lostB := l.PendingC2B(), l.PendingB2C()
	switch kind {
	case "cut+dial-fail":
		s.mu.Lock()
		s.Net.DialFail += Pick(t, "dialfail-n", 1, 2, 4)
		s.mu.Unlock()
	case "cut+token-fail":
		s.mu.Lock()
		y.TokenFail += Pick(t, "tokenfail-n", 1, 2)
		s.mu.Unlock()
	case "cut+handshake-cut":
		s.mu.Lock()
		s.Net.HandshakeCut += 1
		s.mu.Unlock()
	case "cut+refuse-resume", "cut+conflict-resume", "cut+forget-stream":
		var ids []uuid.UUID
		for _, u := range s.Broker.Ups {
			if !u.Closed {
				ids = append(ids, u.ID)
			}
		}
		for _, d := range s.Broker.Downs {
			if !d.Closed {
				ids = append(ids, d.ID)
			}
		}
		if len(ids) > 0 {
			id := ids[t.Choose("victim", len(ids))]
			if u := s.Broker.upByID(id); u != nil {
				switch kind {
				case "cut+conflict-resume":
					u.ConflictLeft = Pick(t, "conflict-n", 1, 2, 3)
				case "cut+refuse-resume":
					u.RefuseResume = message.ResultCodeUnspecifiedError
					fc.refused[id] = true
				default:
					u.RefuseResume = message.ResultCodeStreamNotFound
					fc.refused[id] = true
				}
			} else if d := s.Broker.downByID(id); d != nil {
				switch kind {
				case "cut+conflict-resume":
					d.ConflictLeft = Pick(t, "conflict-n", 1, 2, 3) // a conflict asks for another try, like for an upstream
				case "cut+refuse-resume":
					d.RefuseResume = message.ResultCodeUnspecifiedError
					fc.refused[id] = true
				default:
					d.RefuseResume = message.ResultCodeStreamNotFound
					fc.refused[id] = true
				}
			}
		}
	}
	if fc.fastRedial {
		s.mu.Lock()
		s.Net.InlineHandshake = true
		s.mu.Unlock()
		s.Stat("env.fast-redial")
	}
	if kind == "cut-peer-close" {
		l.Kill(errEOF, errClosed)
	} else {
		l.Kill(errClosed, errClosed)
	}
	fc.cuts++
	s.Stat("fault.cut")
	s.Logf("fault: %s %s (broker saw %d more frames, released %d replies, client got %d more frames; lost c2b=%d b2c=%d)", kind, l, keepC, relN, keepB, lostC, lostB)
	s.Wait()
	s.Harvest()
}

// ---------------------------------------------------------------------------
// C02 enumeration: one cut at every frame boundary of a fixed base scenario.
//
// Base scenario: one reliable upstream with the immediate flush policy, four writes, acks
// released for a chosen subset. The run index (derived from the seed, so that consecutive seeds
// enumerate the space) selects: the position of the cut among the frame movements, whether the
// frames in flight in either direction are still exchanged, which chunks are acknowledged before
// the cut, the resume outcome, and whether the resume exchange itself is cut once more.

// runC02CloseDuringResume: the application closes a reliable upstream while its resume request is in
// flight on the new connection (the broker is slow to answer it). Either the points that were accepted
// and not yet acknowledged still reach the broker, or the application is told that the stream ended
// with an error (Close fails, or the closed notification carries an error) - never a clean Close over
// points the broker has not got.
func runC02CloseDuringResume(s *Sim) {
	t := s.T
	s.Family = "fault-cuts/close-during-resume-handshake"
	bc := BrokerCfg{AutoReq: true, AutoAck: false, AutoPong: true, AutoCallAck: true, AutoAckComplete: true}
	y := newSys(s, bc)
	y.PingInterval, y.PingTimeout = 2*time.Second, time.Second
	s.NewTasks(3)
	s.Start(0, y.connectOp())
	s.Wait()
	y.Pump()
	if op := s.ops[0]; !op.harvested || op.Err != nil {
		s.HarnessError("connect did not succeed: %v", op.Err)
		return
	}
	op := s.Start(0, y.openUpOp(upSpec{QoS: message.QoSReliable, Policy: Pick(t, "policy", "immediate", "size", "none"), Size: 64, CloseTimeout: Pick(t, "closeto", 30*time.Second, time.Second)}))
	s.Wait()
	y.Pump()
	if !op.harvested || op.Err != nil {
		s.HarnessError("open upstream did not succeed: %v", op.Err)
		return
	}
	h := y.Ups[0]
	link := s.Net.Links[0]
	nw := Pick(t, "writes", 1, 2, 4)
	for i := 0; i < nw; i++ {
		s.Start(1, y.writeOp(h, 1, dataID(i%2), []int{40, 8}))
		s.Wait()
		s.Harvest()
	}
	if t.Bool("chunks-reach-broker", 1, 2) {
		link.IngestAll() // received but not acknowledged
	}
	s.Wait()
	s.Broker.Cfg.AutoReq = false // the resume request will wait for its answer
	link.Kill(errClosed, errClosed)
	s.Stat("fault.cut")
	s.Nontrivial()
	var nl *Link
	for i := 0; i < 60 && nl == nil; i++ {
		y.Advance(250 * time.Millisecond)
		for _, l := range y.aliveLinks() {
			if l != link && l.bc != nil && l.bc.Connected {
				for _, r := range h.B.Resumes {
					if r.Link == l.ID {
						nl = l
					}
				}
			}
		}
	}
	if nl == nil {
		s.Stat("c02.close-during-resume-not-reached")
		y.teardown()
		return
	}
	cl := y.closeUpOp(h)
	cl.CtxKind, cl.Timeout = "deadline", 20*time.Second
	s.Start(0, cl)
	s.Wait()
	s.Stat("env.close-during-resume-handshake")
	s.Broker.Cfg.AutoReq, s.Broker.Cfg.AutoAck = true, true
	for i := 0; i < 30; i++ {
		s.Broker.ReleaseAll()
		y.Pump()
		y.Advance(time.Second)
	}
	s.Harvest()
	// what the application was told
	s.mu.Lock()
	closedEv := append([]string(nil), h.ClosedEv...)
	s.mu.Unlock()
	told := !cl.harvested || cl.Err != nil
	for _, e := range closedEv {
		if e != "nil" {
			told = true
		}
	}
	got := map[string]bool{}
	for _, a := range h.B.Arrivals {
		if a.AfterClose {
			continue // a broker does not take chunks for a stream whose close request it has already got
		}
		for _, p := range a.Points {
			got[ptKey(p)] = true
		}
	}
	var lost []string
	accepted := 0
	for _, w := range h.Writes {
		if !(w.Op.harvested && w.Op.Err == nil) {
			continue
		}
		for _, p := range w.Points {
			accepted++
			if !got[ptKey(p)] {
				lost = append(lost, ptKey(p))
			}
		}
	}
	if len(lost) > 0 && !told {
		total := -1
		if n := len(h.B.CloseReqs); n > 0 {
			total = int(h.B.CloseReqs[n-1].Total)
		}
		s.Violate("C02.lost-point", "close-during-resume-handshake", "u%d (reliable): Close called while the resume request was waiting for its answer returned nil, the closed notification carries no error (%v), the close request reports %d points - and %d of the %d accepted points never reached the broker: %v", h.Idx, closedEv, total, len(lost), accepted, firstN(lost, 3))
	}
	s.sample = map[string]any{"mode": "close-during-resume-handshake", "writes": nw, "lost": len(lost), "told": told}
	y.teardown()
}

const (
	sweepWrites    = 4
	sweepPositions = 3*sweepWrites + 1
)

func c02SweepTotal() int { return sweepPositions * 2 * 2 * (1 << sweepWrites) * 2 * 2 }

func runC02Sweep(s *Sim, idx int) {
	total := c02SweepTotal()
	idx %= total
	x := idx
	pos := x % sweepPositions
	x /= sweepPositions
	keepC := x % 2
	x /= 2
	keepB := x % 2
	x /= 2
	mask := x % (1 << sweepWrites)
	x /= 1 << sweepWrites
	conflict := x % 2
	x /= 2
	cutResume := x % 2
	s.Family = "fault-cut-sweep"
	s.Cover(fmt.Sprintf("c02-sweep:%d", idx))
	bc := BrokerCfg{AutoReq: true, AutoAck: false, AutoPong: true, AutoCallAck: true, AutoAckComplete: true}
	y := newSys(s, bc)
	y.PingInterval, y.PingTimeout = 2*time.Second, time.Second
	fc := &faultCtx{y: y, prop: "C02", resumeCut: map[uuid.UUID]bool{}, refused: map[uuid.UUID]bool{}, lostCalls: map[string]bool{}}
	s.Net.OnLost = func(l *Link, dir string, m message.Message) {
		if r, ok := m.(*message.UpstreamResumeRequest); ok {
			fc.resumeCut[r.StreamID] = true
		}
		if _, ok := m.(*message.UpstreamResumeResponse); ok {
			for _, u := range s.Broker.Ups {
				fc.resumeCut[u.ID] = true
			}
		}
	}
	s.NewTasks(3)
	s.Start(0, y.connectOp())
	s.Wait()
	y.Pump()
	if op := s.ops[0]; !op.harvested || op.Err != nil {
		s.HarnessError("connect did not succeed: %v", op.Err)
		return
	}
	op := s.Start(0, y.openUpOp(upSpec{QoS: message.QoSReliable, Policy: "immediate", CloseTimeout: 30 * time.Second}))
	s.Wait()
	y.Pump()
	if !op.harvested || op.Err != nil {
		s.HarnessError("open upstream did not succeed: %v", op.Err)
		return
	}
	h := y.Ups[0]
	link := s.Net.Links[0]
	// the movements of the base scenario, in order
	type mv struct {
		name string
		do   func()
	}
	var moves []mv
	for i := 0; i < sweepWrites; i++ {
		i := i
		moves = append(moves, mv{fmt.Sprintf("write#%d", i+1), func() {
			s.Start(1, y.writeOp(h, 1, dataID(i%2), []int{40, 8}))
			s.Wait()
			s.Harvest()
		}})
		moves = append(moves, mv{fmt.Sprintf("chunk#%d-reaches-broker", i+1), func() { link.IngestOne(); s.Wait() }})
		moves = append(moves, mv{fmt.Sprintf("ack#%d", i+1), func() {
			if mask&(1<<i) == 0 {
				return // this chunk stays unacknowledged
			}
			for _, p := range append([]*pend(nil), s.Broker.Pend...) {
				if p.Kind == "ack" && p.Res.SequenceNumber == uint32(i+1) {
					s.Broker.Release(p, nil)
				}
			}
			link.DeliverAll()
			s.Wait()
		}})
	}
	cut := func(l *Link) {
		if keepC == 1 {
			l.IngestAll()
		}
		if keepB == 1 {
			l.DeliverAll()
		}
		s.Wait()
		l.Kill(errClosed, errClosed)
		fc.cuts++
		s.Stat("fault.cut")
		s.Nontrivial()
	}
	for i, m := range moves {
		if i == pos {
			s.Logf("sweep: cut before %s (keepC=%d keepB=%d mask=%04b conflict=%d cutResume=%d)", m.name, keepC, keepB, mask, conflict, cutResume)
			if conflict == 1 {
				h.B.ConflictLeft = 1
			}
			cut(link)
		}
		if s.Idle(1) || m.name[0] != 'w' {
			m.do()
		}
	}
	if pos >= len(moves) {
		s.Logf("sweep: cut after the last movement (keepC=%d keepB=%d mask=%04b conflict=%d cutResume=%d)", keepC, keepB, mask, conflict, cutResume)
		if conflict == 1 {
			h.B.ConflictLeft = 1
		}
		cut(link)
	}
	if cutResume == 1 {
		// let the client reconnect, and cut again once the resume request is on the new link
		for i := 0; i < 40; i++ {
			y.Advance(250 * time.Millisecond)
			if l := fc.connected(); l != nil && l != link {
				resumeSeen := false
				for _, r := range h.B.Resumes {
					if r.Link == l.ID {
						resumeSeen = true
					}
				}
				if resumeSeen || l.PendingC2B() > 0 {
					s.Logf("sweep: second cut during the resume exchange on %s", l)
					l.Kill(errClosed, errClosed)
					fc.cuts++
					s.Stat("fault.cut-during-resume")
					break
				}
			}
		}
	}
	fc.settleAndJudge(1, 0)
}
