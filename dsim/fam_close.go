package dsim

import (
	"fmt"
	"strings"
	"time"

	"github.com/aptpod/iscp-go/iscp"
	"github.com/aptpod/iscp-go/message"
)

// C10: Close is final. Generated histories end in closes (streams left open,
// pending reads/writes/calls, a reconnect in progress, a half-finished resume,
// any order of stream and connection Close, repeated and concurrent Close);
// afterwards every call on the closed object must fail promptly with the
// documented sentinel, the wire must stay silent, and no goroutine may survive.

func init() { scenarios["C10"] = runC10 }

// runC10HandlerClose: the application gives up at the first disconnect and calls Conn.Close from its
// disconnected handler, i.e. between the detection of the failure and the redial. Once that Close has
// returned the client dials no more.
func runC10HandlerClose(s *Sim, y *Sys) {
	s.Family = "close-final/close-from-disconnected-handler"
	s.mu.Lock()
	y.CloseOnDisconnected = true
	s.mu.Unlock()
	for _, l := range y.aliveLinks() {
		l.Kill(errClosed, errClosed)
	}
	s.Stat("fault.cut")
	for i := 0; i < 40; i++ {
		y.Pump()
		y.Advance(2 * time.Second)
	}
	s.Nontrivial()
	s.mu.Lock()
	var hc *handlerCall
	if len(y.HandlerCalls) > 0 {
		hc = y.HandlerCalls[0]
	}
	dials := s.Net.Dials
	s.mu.Unlock()
	switch {
	case hc == nil:
		s.Stat("c10.no-disconnected-notification")
	case !hc.Returned:
		s.Violate("C10.close-blocks", "conn:from-disconnected-handler", "Conn.Close (5 s deadline) called from the disconnected handler at %v has not returned at %v", hc.Start, s.Now())
	case dials > hc.DialsAtEnd:
		s.Violate("C10.reconnect-after-close", "close-from-disconnected-handler", "%d dial(s) after the Conn.Close that the application called from its disconnected handler had returned (err=%s)", dials-hc.DialsAtEnd, errString(hc.Err))
	}
	s.sample = map[string]any{"mode": "close-from-disconnected-handler", "dials": dials}
	for _, tk := range s.tasks {
		if tk.busy != nil {
			s.CancelOp(tk.busy)
		}
	}
	s.Wait()
	s.Harvest()
	y.teardown()
}

func runC10(s *Sim) {
	t := s.T
	s.Family = "close-final"
	bc := BrokerCfg{AutoReq: !t.Bool("manual-req", 1, 4), AutoAck: !t.Bool("manual-ack", 1, 3), AutoPong: true, AutoCallAck: true, AutoAckComplete: true}
	y := newSys(s, bc)
	if t.Bool("json", 1, 4) {
		y.Enc = iscp.EncodingNameJSON
	}
	y.PingInterval = Pick(t, "ping-iv", 10*time.Second, 2*time.Second)
	y.PingTimeout = Pick(t, "ping-to", 2*time.Second, time.Second)
	s.yieldDensity = Pick(t, "yield", 0, 0, 50, 200)
	nUp := Pick(t, "nup", 1, 0, 2)
	nDown := Pick(t, "ndown", 1, 0, 2)
	// tasks: 0 control, 1..4 workers (pending ops), 5,6 closers, 7 post-close prober
	s.NewTasks(8)
	const prober = 7
	s.Start(0, y.connectOp())
	s.Wait()
	y.Pump()
	if y.ConnOp = s.ops[0]; !y.ConnOp.harvested || y.ConnOp.Err != nil {
		s.HarnessError("connect did not succeed: %v", y.ConnOp.Err)
		return
	}
	auto := s.Broker.Cfg
	s.Broker.Cfg.AutoReq = true
	for i := 0; i < nUp; i++ {
		sp := drawUpSpec(s, "C10")
		sp.CloseTimeout = Pick(t, "closeto", 2*time.Second, 500*time.Millisecond)
		op := s.Start(0, y.openUpOp(sp))
		s.Wait()
		y.Pump()
		if !op.harvested || op.Err != nil {
			s.HarnessError("open upstream: %v", op.Err)
			return
		}
	}
	for i := 0; i < nDown; i++ {
		op := s.Start(0, y.openDownOp(downSpec{QoS: message.QoSReliable, Sources: []string{"node-1", "node-2"}, AckFlush: 100 * time.Millisecond}))
		s.Wait()
		y.Pump()
		if !op.harvested || op.Err != nil {
			s.HarnessError("open downstream: %v", op.Err)
			return
		}
	}
	s.Broker.Cfg = auto
	if w := Pick(t, "link-window", 0, 0, 1, 2); w > 0 {
		// a broker that is slow to take frames: stream writes are still parked in the link when Close runs
		s.Net.Window = w
		s.Stat("env.link-backpressure")
	}
	if hd := Pick(t, "hook-delay", time.Duration(0), 0, 2*time.Millisecond, 20*time.Millisecond); hd > 0 {
		// application callbacks that take time: notifications pile up behind them
		for _, h := range y.Ups {
			h.HookDelay = hd
		}
		s.Stat("env.slow-application-hooks")
	}

	if t.Bool("close-from-disconnected-handler", 1, 10) {
		runC10HandlerClose(s, y)
		return
	}
	// ---- history before the close: traffic, pending operations, possibly an outage ----
	nHist := Pick(t, "hist", 6, 0, 3, 15)
	n := 0
	for i := 0; i < nHist; i++ {
		n++
		switch t.Choose("hist-kind", 7) {
		case 0, 1:
			if len(y.Ups) > 0 && s.Idle(1) {
				s.Start(1, y.writeOp(y.Ups[t.Choose("h-up", len(y.Ups))], 1, dataID(n%3), []int{16, 200}))
			}
		case 2:
			if len(y.Downs) > 0 && s.Idle(2) {
				s.Start(2, y.readOp(y.Downs[t.Choose("h-down", len(y.Downs))])) // may stay pending
			}
		case 3:
			if len(y.Downs) > 0 {
				h := y.Downs[t.Choose("h-down", len(y.Downs))]
				if h.B != nil && h.B.link != nil && h.B.link.Alive() {
					(&faultCtx{y: y}).emit(h, false)
				}
			}
		case 4:
			if s.Idle(3) {
				s.Start(3, y.sendCallOp(Pick(t, "h-call", "call", "call-wait"), fmt.Sprintf("h%d", n), "p", "")) // ack may stay pending
			}
		case 5:
			if s.Idle(4) {
				s.Start(4, y.recvCallOp(t.Bool("h-reply", 1, 2))) // stays pending
			}
		case 6:
			if s.Idle(4) {
				s.Start(4, y.sendMetaOp(fmt.Sprintf("h-bt-%d", n)))
			}
		}
		s.Wait()
		switch t.Choose("hist-net", 3) {
		case 0:
			y.Pump()
		case 1:
			y.flushLinks()
		}
		if t.Bool("hist-adv", 1, 3) {
			y.Advance(Pick(t, "hadv", 50*time.Millisecond, 500*time.Millisecond, 3*time.Second))
		}
	}
	outage := Pick(t, "outage", "none", "none", "reconnecting", "half-resume", "cut-then-recovered", "redial-succeeds-around-close")
	switch outage {
	case "reconnecting":
		s.mu.Lock()
		s.Net.DialFail = 1000
		s.mu.Unlock()
		for _, l := range y.aliveLinks() {
			l.Kill(errClosed, errClosed)
		}
		y.Advance(y.PingInterval + y.PingTimeout + time.Second)
		s.Stat("fault.cut+dial-fail")
	case "redial-succeeds-around-close":
		// the connection is lost, a few redials fail, and the one that succeeds does so while
		// Close is being called (the handshake response is still on its way)
		s.mu.Lock()
		s.Net.DialFail = Pick(t, "redial-fails", 1, 0, 2, 3)
		s.mu.Unlock()
		s.Broker.Cfg.AutoReq = true
		for _, l := range y.aliveLinks() {
			l.Kill(errClosed, errClosed)
		}
		s.Advance(y.PingInterval + y.PingTimeout + Pick(t, "redial-wait", time.Duration(0), 50*time.Millisecond, 200*time.Millisecond, time.Second))
		if t.Bool("handshake-half-way", 1, 2) {
			// the broker has seen the ConnectRequest; its response is delivered only after Close started
			for _, l := range y.aliveLinks() {
				l.IngestAll()
			}
		}
		s.Stat("fault.cut+redial-around-close")
	case "half-resume":
		s.Broker.Cfg.AutoReq = false // resume requests stay unanswered
		for _, l := range y.aliveLinks() {
			l.Kill(errClosed, errClosed)
		}
		y.Advance(y.PingInterval + y.PingTimeout + time.Second)
		// answer only the connect handshake (always automatic); resumes are pending now
		y.flushLinks()
		s.Stat("fault.cut+resume-unanswered")
	case "cut-then-recovered":
		for _, l := range y.aliveLinks() {
			l.Kill(errClosed, errClosed)
		}
		s.Broker.Cfg.AutoReq = true
		for i := 0; i < 20; i++ {
			y.Pump()
			y.Advance(time.Second)
		}
		s.Stat("fault.cut")
	}
	s.Family = "close-final/" + outage

	if len(y.Downs) > 0 && outage == "none" && t.Bool("unread-backlog-at-close", 1, 8) {
		// the application has stopped reading a downstream long before it closes it: more chunks are
		// waiting than any internal queue holds
		h := y.Downs[t.Choose("backlog-down", len(y.Downs))]
		if h.B != nil && h.B.link != nil && h.B.link.Alive() {
			fc := &faultCtx{y: y}
			for k := 0; k < 1100; k++ {
				fc.emit(h, false)
			}
			h.B.link.DeliverAll()
			s.Wait()
			s.Stat("env.unread-backlog-at-close")
		}
	}
	bufferedAtClose := outage == "none" && t.Bool("buffered-data-at-close", 1, 2)
	if bufferedAtClose {
		// data is buffered in every upstream when the closes start (their final flushes run while
		// Close sends its own messages); under back-pressure the link is full as well
		for _, h := range y.Ups {
			if s.Idle(1) {
				n++
				s.Start(1, y.writeOp(h, 1, dataID(n%3), []int{16, 200}))
				s.Wait()
				s.Harvest()
			}
		}
		if s.Net.Window > 0 && s.Idle(4) {
			n++
			s.Start(4, y.sendMetaOp(fmt.Sprintf("pre-close-bt-%d", n)))
			s.Wait()
		}
		s.Stat("env.buffered-data-at-close")
	}
	// ---- the closes ----
	type target struct {
		kind string
		up   *upH
		dn   *downH
	}
	var targets []target
	for _, h := range y.Ups {
		targets = append(targets, target{"up", h, nil})
	}
	for _, h := range y.Downs {
		targets = append(targets, target{"down", nil, h})
	}
	targets = append(targets, target{"conn", nil, nil})
	// order: tape-chosen permutation, the connection may come first
	for i := len(targets) - 1; i > 0; i-- {
		j := t.Choose("close-order", i+1)
		targets[i], targets[j] = targets[j], targets[i]
	}
	if bufferedAtClose && t.Bool("conn-close-first", 1, 2) {
		for i, tg := range targets {
			if tg.kind == "conn" {
				targets[0], targets[i] = targets[i], targets[0]
			}
		}
	}
	connClosedAt := -1
	dialsAtConnClose := 0
	connCloseReturned := false
	mkClose := func(tg target) *Op {
		var op *Op
		switch tg.kind {
		case "up":
			op = y.closeUpOp(tg.up)
		case "down":
			op = y.closeDownOp(tg.dn)
		default:
			op = y.closeConnOp()
		}
		op.CtxKind, op.Timeout = "deadline", Pick(t, "close-ctx-to", 10*time.Second, 3*time.Second)
		return op
	}
	for _, tg := range targets {
		concurrent := t.Bool("concurrent-close", 1, 4)
		op1 := mkClose(tg)
		if nb := Pick(t, "inbound-burst-racing-close", 0, 0, 0, 12, 40); nb > 0 {
			// the broker pushes a burst of messages that the reader goroutines handle while Close
			// runs (they are handed to the link right before Close is called, no quiescence in between)
			kind := Pick(t, "inbound-burst-kind", "call", "reply", "call")
			for _, l := range y.aliveLinks() {
				for k := 0; k < nb; k++ {
					n++
					if kind == "reply" {
						s.Broker.EmitCall(l, fmt.Sprintf("burst-%d", n), fmt.Sprintf("no-such-call-%d", n), "node-9", "burst", []byte("x"))
					} else {
						s.Broker.EmitCall(l, fmt.Sprintf("burst-%d", n), "", "node-9", "burst", []byte("x"))
					}
				}
				l.DeliverAll()
			}
			s.Stat("env.inbound-burst-racing-close")
		}
		s.Start(5, op1)
		var op2 *Op
		if concurrent {
			op2 = mkClose(tg)
			s.Start(6, op2)
		}
		s.Wait()
		done := func() bool { return op1.harvested && (op2 == nil || op2.harvested) }
		for i := 0; i < 200 && !done(); i++ {
			y.Pump()
			if done() {
				break
			}
			y.Advance(100 * time.Millisecond)
		}
		if !done() {
			s.Violate("C10.close-blocks", tg.kind+":"+outage, "%s with a %v deadline (history: outage=%s) has not returned 20 s later", op1.Name, op1.Timeout, outage)
			break
		}
		if op1.Panic != "" || (op2 != nil && op2.Panic != "") {
			break // reported by the kernel as <prop>.api-panic
		}
		// repeated Close must return (any result)
		if t.Bool("repeat-close", 1, 2) {
			op3 := mkClose(tg)
			s.Start(5, op3)
			s.Wait()
			y.PumpUntil(func() bool { return op3.harvested }, 100*time.Millisecond, 15*time.Second)
			if !op3.harvested {
				s.Violate("C10.close-blocks", "repeated:"+tg.kind, "a second %s (deadline %v) does not return", op3.Name, op3.Timeout)
				break
			}
		}
		if tg.kind == "conn" {
			connCloseReturned = true
			s.mu.Lock()
			dialsAtConnClose = s.Net.Dials
			s.mu.Unlock()
			connClosedAt = int(s.seq)
		}
		// ---- post-close calls: prompt, documented errors ----
		type post struct {
			name string
			op   *Op
			want string // error class demanded; "" = any error or a buffered item
		}
		var posts []post
		switch tg.kind {
		case "up":
			posts = append(posts, post{"Write", y.writeOp(tg.up, prober, dataID(0), []int{8}), "stream-closed"}, post{"Flush", y.flushOp(tg.up), "stream-closed"})
		case "down":
			posts = append(posts, post{"ReadDataPoints", y.readOp(tg.dn), "stream-closed|item"}, post{"ReadMetadata", y.readMetaOp(tg.dn), "stream-closed|item"})
		default:
			n++
			ups, downs := append([]*upH(nil), y.Ups...), append([]*downH(nil), y.Downs...)
			posts = append(posts,
				post{"OpenUpstream", y.openUpOp(upSpec{QoS: message.QoSReliable, Session: fmt.Sprintf("post-%d", n)}), "conn-closed"},
				post{"OpenDownstream", y.openDownOp(downSpec{QoS: message.QoSReliable, Sources: []string{"node-1"}}), "conn-closed"},
				post{"SendMetadata", y.sendMetaOp(fmt.Sprintf("post-bt-%d", n)), "conn-closed"},
				post{"SendCall", y.sendCallOp("call", fmt.Sprintf("post-call-%d", n), "p", ""), "conn-closed"},
				post{"SendReplyCall", y.sendCallOp("reply", fmt.Sprintf("post-reply-%d", n), "p", "x"), "conn-closed"},
				post{"SendCallAndWaitReplayCall", y.sendCallOp("call-wait", fmt.Sprintf("post-callw-%d", n), "p", ""), "conn-closed"},
				post{"ReceiveCall", y.recvCallOp(false), "conn-closed|item"},
				post{"ReceiveReplyCall", y.recvCallOp(true), "conn-closed|item"})
			for _, h := range ups {
				if h.U != nil {
					posts = append(posts, post{"Write(after Conn.Close)", y.writeOp(h, prober, dataID(0), []int{8}), "stream-closed"})
				}
			}
			for _, h := range downs {
				if h.D != nil {
					posts = append(posts, post{"ReadDataPoints(after Conn.Close)", y.readOp(h), "stream-closed|item"})
				}
			}
		}
		for _, p := range posts {
			if !s.Idle(prober) {
				break
			}
			for k := 0; k < 1100; k++ { // drain buffered items
				s.Start(prober, p.op)
				s.Wait()
				s.Harvest()
				if !p.op.harvested {
					s.Violate("C10.blocks-after-close", p.name, "%s called after %s had returned blocks (background context, library quiescent, no clock advance needed for an error)", p.name, op1.Name)
					s.CancelOp(p.op)
					s.Wait()
					s.Harvest()
					break
				}
				if p.op.Panic != "" {
					break
				}
				cls := errClass(p.op.Err)
				if cls == "nil" {
					if strings.HasSuffix(p.want, "|item") {
						// an item delivered before the close; ask again
						switch {
						case strings.HasPrefix(p.name, "ReadDataPoints"):
							h := p.op.Meta.(*downH)
							p.op = y.readOp(h)
						case p.name == "ReadMetadata":
							p.op = y.readMetaOp(p.op.Meta.(*downH))
						case p.name == "ReceiveCall":
							p.op = y.recvCallOp(false)
						default:
							p.op = y.recvCallOp(true)
						}
						continue
					}
					s.Violate("C10.succeeds-after-close", p.name, "%s called after %s had returned succeeded silently", p.name, op1.Name)
					break
				}
				want := strings.TrimSuffix(p.want, "|item")
				if cls != want {
					s.Violate("C10.wrong-error-after-close", p.name+":"+cls, "%s called after %s had returned failed with %q; documented: the %s sentinel (errors.Is ErrISCP)", p.name, op1.Name, errString(p.op.Err), want)
				}
				break
			}
		}
	}
	// ---- silence on the wire, no reconnect ----
	if connCloseReturned {
		s.mu.Lock()
		s.Net.DialFail = 0
		s.mu.Unlock()
		for i := 0; i < 40; i++ {
			y.Pump()
			y.Advance(2 * time.Second)
		}
		s.mu.Lock()
		dials := s.Net.Dials
		s.mu.Unlock()
		if dials > dialsAtConnClose {
			s.Violate("C10.reconnect-after-close", outage, "%d dial(s) after Conn.Close had returned", dials-dialsAtConnClose)
		}
		// every transport the client ever dialled has been closed by it (or had died before)
		for _, l := range y.allLinks() {
			s.mu.Lock()
			open := !l.clientClosed && !l.isDead
			s.mu.Unlock()
			if open {
				s.Violate("C10.transport-left-open", outage, "80 s after Conn.Close returned the client still holds %s open (never closed by the client): it goes on answering and sending keepalive on it", l)
				break
			}
		}
		for _, c := range s.Broker.Conns {
			if c.Disconnect == nil {
				continue
			}
			for i := c.DisconnectAt + 1; i < len(c.Frames); i++ {
				f := c.Frames[i]
				if f != "*message.Ping" && f != "*message.Pong" && f != "*message.Disconnect" {
					s.Violate("C10.frame-after-disconnect", f, "%s sent on %s after the client's Disconnect", f, c.Link)
				}
			}
		}
		if len(y.Disconnected) > 0 && outage == "none" && len(y.Disconnected) > 1 {
			s.Violate("C10.disconnected-twice", "", "%d disconnected notifications for one Close on a healthy connection", len(y.Disconnected))
		}
	}
	_ = connClosedAt
	for _, h := range y.Ups {
		if len(h.ClosedEv) > 1 {
			s.Violate("C10.closed-event-twice", "upstream", "u%d: %d closed notifications", h.Idx, len(h.ClosedEv))
		}
	}
	for _, h := range y.Downs {
		if len(h.ClosedEv) > 1 {
			s.Violate("C10.closed-event-twice", "downstream", "d%d: %d closed notifications", h.Idx, len(h.ClosedEv))
		}
	}
	s.Nontrivial()
	// ---- census: once the peer side is closed too, nothing of the library survives ----
	for _, tk := range s.tasks {
		if tk.busy != nil {
			s.CancelOp(tk.busy)
		}
	}
	s.Wait()
	s.Harvest()
	if connCloseReturned {
		s.mu.Lock()
		s.Net.NoDial = true
		s.mu.Unlock()
		for _, l := range y.allLinks() {
			l.Kill(errEOF, errClosed)
		}
		s.Wait()
		for i := 0; i < 30; i++ {
			time.Sleep(10 * time.Second)
			s.Wait()
		}
		s.Harvest()
		gs := libraryGoroutines()
		if len(gs) > 0 {
			cnt := map[string]int{}
			for _, g := range gs {
				cnt[leakLocus(g)+" <- "+leakCreator(g)]++
			}
			s.Logf("leaked goroutines: %v", cnt)
			s.Violate("C10.goroutine-left", leakLocus(gs[0]), "%d goroutine(s) started by the library are still alive 300 s after Conn.Close returned and the peer closed its side (outage=%s): %v; first:\n%s", len(gs), outage, cnt, trunc(gs[0], 1500))
		}
	}
	s.sample = map[string]any{"ups": nUp, "downs": nDown, "history_ops": nHist, "outage": outage, "close_order": fmt.Sprint(func() []string {
		var o []string
		for _, tg := range targets {
			o = append(o, tg.kind)
		}
		return o
	}())}
	y.teardown()
}

// leakLocus names the innermost library function of a leaked goroutine.
func leakLocus(g string) string {
	for _, line := range strings.Split(g, "\n") {
		if strings.HasPrefix(line, "github.com/aptpod/iscp-go/") && !strings.Contains(line, "verifsync") {
			f := strings.TrimPrefix(line, "github.com/aptpod/iscp-go/")
			if i := strings.LastIndex(f, "("); i > 0 {
				f = f[:i]
			}
			return f
		}
	}
	return "unknown"
}

func leakCreator(g string) string {
	i := strings.LastIndex(g, "created by ")
	if i < 0 {
		return "?"
	}
	f := g[i+len("created by "):]
	if j := strings.Index(f, " in goroutine"); j > 0 {
		f = f[:j]
	}
	return strings.TrimPrefix(f, "github.com/aptpod/iscp-go/")
}
