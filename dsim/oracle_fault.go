package dsim

import (
	"fmt"
	"sort"
	"strings"
	"time"

	"github.com/aptpod/iscp-go/iscp"
	"github.com/aptpod/iscp-go/message"
)

// settleAndJudge: stop faults, heal, let the system recover, probe every stream,
// then evaluate the C02 / C05 oracles.
func (fc *faultCtx) settleAndJudge(baseUps, baseDowns int) {
	y, s := fc.y, fc.y.s
	prop := fc.prop
	fc.faultsLeft = 0
	s.mu.Lock()
	s.Net.DialFail, y.TokenFail, s.Net.HandshakeCut = 0, 0, 0
	s.mu.Unlock()
	s.Logf("settle: faults stopped, network healed")
	// pending reads would wait for data for ever: end them
	for _, tk := range s.tasks {
		if op := tk.busy; op != nil && (op.Name == "ReadDataPoints" || op.Name == "ReadMetadata") {
			s.CancelOp(op)
		}
	}
	s.Wait()
	s.Harvest()
	// recovery bound: keepalive detection + back-off (<= 7.5 s per attempt, a handful of attempts) + slack
	stable := func() bool { return fc.connected() != nil && !s.AnyBusy() }
	for i := 0; i < 150; i++ {
		y.Pump()
		if stable() && i >= 40 {
			break
		}
		y.Advance(time.Second)
	}
	y.Pump()
	if fc.connected() == nil {
		s.Violate("C05.no-recovery", "", "150 s after the last fault (network healthy, dials succeed) the client has no established connection; dials=%d", s.Net.Dials)
		y.teardown()
		return
	}

	// --- operations issued around the failures ---
	for _, op := range fc.miscOps {
		if !op.harvested {
			if rec, ok := op.Meta.(*callRec); ok && fc.callSeen(rec.Name) {
				s.Stat("c05.call-ack-lost-exempt")
				continue
			}
			s.Violate(prop+".op-stuck", op.Name, "%s(%s) with %s context issued at %v has not returned 150 s after the network healed", op.Name, op.Args, op.ctxString(), op.InvokeT)
			continue
		}
		if prop != "C05" {
			continue
		}
		cls := errClass(op.Err)
		switch {
		case cls == "nil":
		case (cls == "ctx-deadline" || cls == "ctx-canceled") && op.CtxKind != "bg":
		default:
			if rec, ok := op.Meta.(*callRec); ok && fc.callSeen(rec.Name) {
				continue
			}
			s.Violate("C05.op-failed", op.Name+":"+cls, "%s(%s) with %s context failed with %q instead of being retried after recovery", op.Name, op.Args, op.ctxString(), errString(op.Err))
		}
	}

	// --- probes: does every stream still work? ---
	type verdict struct {
		state string // working, reported-closed, detached, blocked
		note  string
	}
	upVerdict := map[*upH]verdict{}
	misc := 1 + baseUps + baseDowns // the task that opened streams in the middle of the run (C05)
	for i, h := range y.Ups {
		ti := 1 + i
		if i >= baseUps {
			// a stream opened during the run (possibly during or across an outage) keeps working too
			if prop != "C05" || h.U == nil || h.B == nil || h.CloseOp != nil || !s.Idle(misc) {
				continue
			}
			ti = misc
		}
		if !s.Idle(ti) {
			// the writer is still blocked in Write/Flush: that is a verdict of its own
			op := s.Busy(ti)
			upVerdict[h] = verdict{"blocked", fmt.Sprintf("%s op%d invoked at %v still blocked", op.Name, op.ID, op.InvokeT)}
			continue
		}
		before := len(h.B.Arrivals)
		w := y.writeOp(h, ti, dataID(0), []int{16})
		w.CtxKind, w.Timeout = "deadline", 20*time.Second
		s.Start(ti, w)
		y.Pump()
		if !w.harvested && s.trace {
			for _, g := range libraryGoroutines() {
				s.Logf("goroutine while probe write blocks:\n%s", g)
			}
		}
		y.PumpUntil(func() bool { return w.harvested }, time.Second, 30*time.Second)
		if !w.harvested {
			upVerdict[h] = verdict{"blocked", "probe write ignores its deadline"}
			continue
		}
		if cls := errClass(w.Err); cls == "stream-closed" {
			upVerdict[h] = verdict{"reported-closed", "write: stream closed"}
			continue
		} else if cls != "nil" {
			upVerdict[h] = verdict{"blocked", "probe write: " + errString(w.Err)}
			continue
		}
		f := y.flushOp(h)
		f.CtxKind, f.Timeout = "deadline", 20*time.Second
		s.Start(ti, f)
		y.PumpUntil(func() bool { return f.harvested }, time.Second, 30*time.Second)
		for k := 0; k < 12; k++ {
			y.Advance(time.Second)
			y.Pump()
		}
		arrived := false
		for _, a := range h.B.Arrivals[before:] {
			for _, p := range a.Points {
				if ptKey(p) == ptKey(w.Meta.(*writeRec).Points[0]) {
					arrived = true
				}
			}
		}
		switch {
		case arrived:
			upVerdict[h] = verdict{"working", ""}
		case f.harvested && errClass(f.Err) == "stream-closed":
			upVerdict[h] = verdict{"reported-closed", "flush: stream closed"}
		default:
			upVerdict[h] = verdict{"detached", fmt.Sprintf("probe write returned nil, Flush returned %s, but the point never reached the broker", errString(f.Err))}
		}
	}
	downVerdict := map[*downH]verdict{}
	for i, h := range y.Downs {
		ti := 1 + baseUps + i
		if i >= baseDowns {
			if prop != "C05" || h.D == nil || h.B == nil || h.CloseOp != nil || !s.Idle(misc) {
				continue
			}
			ti = misc
		}
		if !s.Idle(ti) {
			downVerdict[h] = verdict{"blocked", "reader still blocked after cancellation"}
			continue
		}
		// drain what is buffered, then send a probe chunk
		var sc *sentChunk
		if h.B.link != nil && h.B.link.Alive() {
			sc = fc.emit(h, true)
		}
		got := false
		closed := false
		for k := 0; k < 1100 && !got && !closed; k++ {
			r := y.readOp(h)
			r.CtxKind, r.Timeout = "deadline", 5*time.Second
			s.Start(ti, r)
			y.PumpUntil(func() bool { return r.harvested }, time.Second, 10*time.Second)
			if !r.harvested {
				downVerdict[h] = verdict{"blocked", "probe read ignores its deadline"}
				break
			}
			switch errClass(r.Err) {
			case "nil":
				c := r.Res.(*iscp.DownstreamChunk)
				if sc != nil && c.SequenceNumber == sc.Seq && c.UpstreamInfo.StreamID == sc.Info.StreamID {
					got = true
				}
			case "stream-closed":
				closed = true
			default:
				k = 1 << 20 // deadline: nothing more to read
			}
		}
		if _, done := downVerdict[h]; done {
			continue
		}
		switch {
		case got:
			downVerdict[h] = verdict{"working", ""}
		case closed:
			downVerdict[h] = verdict{"reported-closed", "read: stream closed"}
		case sc == nil:
			downVerdict[h] = verdict{"detached", "the broker has no live attachment of the stream (no resume request reached it) and reads do not report the stream closed"}
		default:
			downVerdict[h] = verdict{"detached", "probe chunk sent on the resumed attachment is never returned by ReadDataPoints and reads do not report the stream closed"}
		}
	}

	// a stream that had not completed its resume on an established link when that link died
	// was in the middle of a resume exchange: being reported closed is then legitimate
	for _, l := range s.Net.Links {
		if !(l.bc != nil && l.bc.Connected && (l.isDead || l.blackhole)) {
			continue
		}
		for _, u := range s.Broker.Ups {
			if u.OpenLink >= l.ID {
				continue
			}
			ok := false
			for _, r := range u.Resumes {
				if r.Link == l.ID && r.Outcome == message.ResultCodeSucceeded {
					ok = true
				}
			}
			if !ok {
				fc.resumeCut[u.ID] = true
			}
		}
		for _, d := range s.Broker.Downs {
			if d.OpenLink >= l.ID {
				continue
			}
			ok := false
			for _, r := range d.Resumes {
				if r.Link == l.ID && r.Outcome == message.ResultCodeSucceeded {
					ok = true
				}
			}
			if !ok {
				fc.resumeCut[d.ID] = true
			}
		}
	}

	// --- C05 judgement per stream ---
	if prop == "C05" {
		for h, v := range upVerdict {
			id := h.U.ID
			legit := fc.refused[id] || fc.resumeCut[id]
			closedEv := hasErrEvent(h.ClosedEv)
			switch v.state {
			case "working":
				if n := len(h.ResumedEv); n > fc.establishedDeaths() {
					s.Violate("C05.resumed-event-count", "upstream", "u%d: %d resumed notifications for %d outages", h.Idx, n, fc.establishedDeaths())
				}
			case "reported-closed":
				if !legit {
					s.Violate("C05.stream-closed-without-cause", "upstream:"+h.Spec.QoS.String(), "u%d (%v) ended up closed (%s) although the broker never refused its resume and no resume exchange was cut; closed-event-with-error=%v", h.Idx, h.Spec.QoS, v.note, closedEv)
				}
			case "detached":
				s.Violate("C05.stream-silently-detached", "upstream"+fc.redialTag(), "u%d (%v): %s; resumes seen by broker=%d, closed events=%v", h.Idx, h.Spec.QoS, v.note, len(h.B.Resumes), h.ClosedEv)
			case "blocked":
				s.Violate("C05.stream-blocked", "upstream", "u%d (%v): %s", h.Idx, h.Spec.QoS, v.note)
			}
		}
		for h, v := range downVerdict {
			id := h.D.ID
			legit := fc.refused[id] || fc.resumeCut[id]
			switch v.state {
			case "working":
				if n := len(h.ResumedEv); n > fc.establishedDeaths() {
					s.Violate("C05.resumed-event-count", "downstream", "d%d: %d resumed notifications for %d outages", h.Idx, n, fc.establishedDeaths())
				}
			case "reported-closed":
				if !legit {
					s.Violate("C05.stream-closed-without-cause", "downstream", "d%d ended up closed (%s) although the broker never refused its resume and no resume exchange was cut", h.Idx, v.note)
				}
			case "detached":
				s.Violate("C05.stream-silently-detached", "downstream"+fc.redialTag(), "d%d: %s; resumes seen by broker=%d closed events=%v", h.Idx, v.note, len(h.B.Resumes), h.ClosedEv)
			case "blocked":
				s.Violate("C05.stream-blocked", "downstream", "d%d: %s", h.Idx, v.note)
			}
		}
		// resume requests carry the original stream id (and alias for downstreams)
		for _, x := range s.Broker.Unknown {
			if strings.Contains(x, "resume") {
				s.Violate("C05.resume-unknown-stream", "", "broker received %s", x)
			}
		}
		for _, h := range y.Downs {
			if h.B == nil {
				continue
			}
			for _, r := range h.B.Resumes {
				if r.Alias != h.B.Open.DesiredStreamIDAlias {
					s.Violate("C05.downstream-resume-alias", "", "d%d resumed with alias %d, opened with %d", h.Idx, r.Alias, h.B.Open.DesiredStreamIDAlias)
				}
			}
		}
		// a fresh token on every connect attempt
		seen := map[string]int{}
		for i, tok := range s.Broker.Tokens {
			if j, dup := seen[tok]; dup {
				s.Violate("C05.token-reused", "", "ConnectRequest #%d carries token %q already used by ConnectRequest #%d", i+1, tok, j+1)
			}
			seen[tok] = i
		}
		if len(s.Broker.Tokens) > y.TokenCalls {
			s.Violate("C05.token-reused", "count", "%d ConnectRequests but the token source was asked %d times", len(s.Broker.Tokens), y.TokenCalls)
		}
		// notifications once per outage
		outages := fc.establishedDeaths()
		if d := len(y.Disconnected); d > outages || (outages > 0 && d == 0) {
			s.Violate("C05.disconnected-event-count", "", "%d disconnected notifications for %d lost connections", d, outages)
		}
		if r := len(y.Reconnected); r > outages || (outages > 0 && r == 0) {
			s.Violate("C05.reconnected-event-count", "", "%d reconnected notifications for %d recovered outages", r, outages)
		}
	}

	// --- C02 judgement: reliable upstreams lose nothing ---
	if prop == "C02" {
		for i := 0; i < baseUps; i++ {
			h := y.Ups[i]
			if h.Spec.QoS != message.QoSReliable {
				continue
			}
			v := upVerdict[h]
			fc.judgeC02(h, v.state, v.note)
		}
	}

	// close everything
	for i := 0; i < baseUps; i++ {
		h := y.Ups[i]
		if !s.Idle(0) {
			break
		}
		op := y.closeUpOp(h)
		op.CtxKind, op.Timeout = "deadline", 60*time.Second
		s.Start(0, op)
		y.PumpUntil(func() bool { return op.harvested }, time.Second, 90*time.Second)
		if prop == "C02" && op.harvested && op.Err == nil && h.Spec.QoS == message.QoSReliable && upVerdict[h].state == "working" {
			fc.judgeC02Close(h)
		}
	}
	if s.Idle(0) {
		cop := y.closeConnOp()
		cop.CtxKind, cop.Timeout = "deadline", 30*time.Second
		s.Start(0, cop)
		y.PumpUntil(func() bool { return cop.harvested }, time.Second, 60*time.Second)
	}
	y.teardown()
	s.sample = map[string]any{"ups": y.sampleUp(), "cuts": fc.cuts, "links": len(s.Net.Links), "dials": s.Net.Dials}
}

func (fc *faultCtx) redialTag() string {
	if fc.fastRedial {
		return ":zero-latency-redial"
	}
	return ""
}

func hasErrEvent(evs []string) bool {
	for _, e := range evs {
		if e != "nil" {
			return true
		}
	}
	return false
}

func (fc *faultCtx) callSeen(name string) bool {
	if fc.lostCalls[name] {
		return true
	}
	for _, c := range fc.y.s.Broker.Calls {
		if c.Msg.Name == name {
			return true
		}
	}
	return false
}

// establishedDeaths counts established connections that died without the application closing them.
func (fc *faultCtx) establishedDeaths() int {
	n := 0
	for _, l := range fc.y.s.Net.Links {
		if l.bc != nil && l.bc.Connected && (l.isDead || l.blackhole || l.clientClosed) && l.bc.Disconnect == nil {
			n++
		}
	}
	return n
}

// judgeC02: every accepted point is at the broker with its original payload under the
// sequence number it was first given; a sequence number never carries different content.
func (fc *faultCtx) judgeC02(h *upH, state, note string) {
	s := fc.y.s
	u := fmt.Sprintf("u%d", h.Idx)
	// content per sequence number as first announced to the send hook
	first := map[uint32]hookBeforeRec{}
	for _, r := range h.Before {
		if _, ok := first[r.Seq]; ok {
			s.Violate("C02.seq-reissued", "", "%s: sequence number %d was announced twice to the send hook (reused for a new chunk)", u, r.Seq)
			continue
		}
		first[r.Seq] = r
	}
	// step invariant evaluated over the ledger: same seq => same content, whatever the incarnation
	bySeq := map[uint32][]*chunkArrival{}
	for _, a := range h.B.Arrivals {
		bySeq[a.Seq] = append(bySeq[a.Seq], a)
	}
	seqs := make([]uint32, 0, len(bySeq))
	for q := range bySeq {
		seqs = append(seqs, q)
	}
	sort.Slice(seqs, func(i, j int) bool { return seqs[i] < seqs[j] })
	for _, q := range seqs {
		arrs := bySeq[q]
		ref, ok := first[q]
		if !ok {
			s.Violate("C02.seq-unknown", "", "%s: chunk with sequence number %d reached the broker but was never announced to the send hook", u, q)
			continue
		}
		for _, a := range arrs {
			if a.DecodeErr != "" {
				s.Violate("C02.undecodable-chunk", "", "%s seq %d on link %d: %s", u, q, a.Link, a.DecodeErr)
				continue
			}
			m, e := diffMultiset(multiset(ref.Points), multiset(a.Points), 2)
			if len(m) > 0 || len(e) > 0 {
				kind := "first-transmission"
				if a != arrs[0] {
					kind = "retransmission"
				}
				s.Violate("C02.chunk-content", kind, "%s: seq %d as received on link %d (%s) differs from what was cut under that number: missing %v, unexpected %v", u, q, a.Link, kind, m, e)
			}
		}
	}
	if state == "reported-closed" {
		s.Stat("c02.stream-reported-closed")
		return // the quantifier excludes streams reported closed to the application
	}
	if state != "working" {
		locus := state
		if fc.fastRedial {
			locus += ":zero-latency-redial"
		}
		s.Violate("C02.stream-not-working", locus, "%s (reliable): %s", u, note)
		return
	}
	if hasErrEvent(h.ClosedEv) {
		return
	}
	// every accepted point reached the broker
	have := map[string]bool{}
	for _, a := range h.B.Arrivals {
		for _, p := range a.Points {
			have[ptKey(p)] = true
		}
	}
	cutAt := map[string]uint32{}
	for q, r := range first {
		for _, p := range r.Points {
			cutAt[ptKey(p)] = q
		}
	}
	var lost []string
	lostSeq := map[uint32]bool{}
	nAccepted := 0
	for _, w := range h.Writes {
		if !(w.Op.harvested && w.Op.Err == nil) {
			continue
		}
		for _, p := range w.Points {
			nAccepted++
			if !have[ptKey(p)] {
				q, wasCut := cutAt[ptKey(p)]
				if wasCut {
					lostSeq[q] = true
					// distinguish "chunk arrived with wrong content" (reported above) from "chunk never arrived"
					if len(bySeq[q]) > 0 {
						continue
					}
				}
				lost = append(lost, fmt.Sprintf("%s(cut=%v seq=%d)", trunc(ptKey(p), 40), wasCut, q))
			}
		}
	}
	if len(lost) > 0 {
		sort.Strings(lost)
		if len(lost) > 4 {
			lost = lost[:4]
		}
		locus := ""
		if h.Spec.AckTimeout != 0 && h.Spec.AckTimeout < time.Hour {
			locus = "ack-timeout-configured"
		}
		s.Violate("C02.lost-point", locus, "%s (reliable, resumed %d times, acks all released, 12 s after a successful probe): %d accepted points; never received: %v; resumes=%d", u, len(h.ResumedEv), nAccepted, lost, len(h.B.Resumes))
	}
	// retransmission happened under the original stream id: every resume request the broker saw for this stream named it
	for _, r := range h.B.Resumes {
		_ = r
	}
}

func (fc *faultCtx) judgeC02Close(h *upH) {
	s := fc.y.s
	u := fmt.Sprintf("u%d", h.Idx)
	if len(h.B.CloseReqs) == 0 {
		s.Violate("C02.close-request-missing", "", "%s: Close returned nil but the broker saw no close request", u)
		return
	}
	cr := h.B.CloseReqs[len(h.B.CloseReqs)-1]
	var maxSeq uint32
	total := 0
	for _, r := range h.Before {
		if r.Seq > maxSeq {
			maxSeq = r.Seq
		}
		total += len(r.Points)
	}
	accepted := 0
	for _, w := range h.Writes {
		if w.Op.harvested && w.Op.Err == nil {
			accepted += len(w.Points)
		}
	}
	if cr.FinalSeq != maxSeq {
		s.Violate("C02.close-final-seq", "", "%s: close request final sequence number %d, last issued %d", u, cr.FinalSeq, maxSeq)
	}
	if int(cr.Total) != total || total != accepted {
		s.Violate("C02.close-total", "", "%s: close request total %d, points cut into chunks %d, points accepted %d", u, cr.Total, total, accepted)
	}
}

var _ = time.Second
