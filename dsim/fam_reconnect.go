package dsim

import (
	"context"
	"errors"
	"fmt"
	"strings"
	"time"

	"github.com/aptpod/iscp-go/transport"
	"github.com/aptpod/iscp-go/transport/reconnect"
)

// C18: the reconnectable transport over a scripted dialer.

func init() { scenarios["C18"] = runC18 }

// member is a scripted underlying transport (one incarnation).
type member struct {
	s               *Sim
	id              int
	cfg             transport.DialConfig
	rx              chan []byte
	fail            chan struct{} // closed: Read returns readErr
	readErr         error
	closed          chan struct{}
	isClosed        bool
	failed          bool
	failNextWrites  int
	accepted        [][]byte // writes accepted by this incarnation, in order
	acceptedAt      []int64
	delivered       int // frames handed to Read
	tx, rxb         uint64
	unrel           bool
	unrelAccepted   [][]byte // datagrams written to this member's unreliable side
	closeErr        error    // CloseWithStatus tears the connection down but reports this error
	breakAfterWrite bool     // the next accepted data frame is followed at once by a read error
	pingsIn         int      // control pings delivered to this connection
	writeGate       chan struct{} // non-nil: Write waits (durably) until it is closed - a connection slow to take data
	closeDelay      time.Duration // CloseWithStatus takes this long (a close handshake) after the connection stopped carrying data
}

func (m *member) Read() ([]byte, error) {
	select {
	case b := <-m.rx:
		return b, nil
	default:
	}
	select {
	case b := <-m.rx:
		return b, nil
	case <-m.fail:
		return nil, m.readErr
	case <-m.closed:
		return nil, transport.ErrAlreadyClosed
	}
}

func (m *member) Write(b []byte) error {
	s := m.s
	s.mu.Lock()
	gate := m.writeGate
	s.mu.Unlock()
	if gate != nil {
		select {
		case <-gate:
		case <-m.closed:
		}
	}
	s.mu.Lock()
	defer s.mu.Unlock()
	if m.isClosed {
		return transport.ErrAlreadyClosed
	}
	if m.failed {
		return errors.New("dsim: write on failed member")
	}
	if m.failNextWrites > 0 {
		m.failNextWrites--
		s.stats["fault.write-error"]++
		return errors.New("dsim: injected write error")
	}
	m.accepted = append(m.accepted, append([]byte(nil), b...))
	s.memberClock++
	m.acceptedAt = append(m.acceptedAt, s.memberClock)
	m.tx += uint64(len(b))
	if m.breakAfterWrite && !m.failed && !reconnect.IsPong(b) {
		// the connection takes this frame and breaks right afterwards: the reader sees the error
		// while the writer is still on its way back from Write
		m.breakAfterWrite = false
		m.failed = true
		m.readErr = errors.New("dsim: connection reset")
		close(m.fail)
		s.stats["fault.read-error-right-after-accepted-write"]++
	}
	return nil
}

func (m *member) Close() error { return m.CloseWithStatus(transport.CloseStatusNormal) }
func (m *member) CloseWithStatus(transport.CloseStatus) error {
	m.s.mu.Lock()
	if !m.isClosed {
		m.isClosed = true
		close(m.closed)
	}
	delay := m.closeDelay
	m.s.mu.Unlock()
	if delay > 0 {
		time.Sleep(delay) // pending reads have already failed; the close handshake is still going on
	}
	m.s.mu.Lock()
	defer m.s.mu.Unlock()
	if m.closeErr != nil {
		// the connection is torn down, but the close handshake could not be completed
		m.s.stats["fault.close-returns-error"]++
		return m.closeErr
	}
	return nil
}
func (m *member) RxBytesCounterValue() uint64 {
	m.s.mu.Lock()
	defer m.s.mu.Unlock()
	return m.rxb
}
func (m *member) TxBytesCounterValue() uint64 {
	m.s.mu.Lock()
	defer m.s.mu.Unlock()
	return m.tx
}
func (m *member) Name() transport.Name        { return "member" }
func (m *member) NegotiationParams() transport.NegotiationParams {
	return m.cfg.NegotiationParams()
}
func (m *member) AsUnreliable() (transport.UnreliableTransport, bool) {
	if !m.unrel {
		return nil, false
	}
	return &memberUnrel{m: m}, true
}

// memberUnrel is the datagram side of a scripted member: it records what is written to it.
type memberUnrel struct{ m *member }

func (u *memberUnrel) IsUnreliable() {}
func (u *memberUnrel) Read() ([]byte, error) {
	<-u.m.closed
	return nil, transport.ErrAlreadyClosed
}
func (u *memberUnrel) Write(b []byte) error {
	s := u.m.s
	s.mu.Lock()
	defer s.mu.Unlock()
	if u.m.isClosed {
		return transport.ErrAlreadyClosed
	}
	u.m.unrelAccepted = append(u.m.unrelAccepted, append([]byte(nil), b...))
	return nil
}
func (u *memberUnrel) Close() error                { return nil }
func (u *memberUnrel) RxBytesCounterValue() uint64 { return 0 }
func (u *memberUnrel) TxBytesCounterValue() uint64 { return 0 }

// failRead makes the pending/next Read return an error (the connection broke).
func (m *member) failRead(err error) {
	m.s.mu.Lock()
	defer m.s.mu.Unlock()
	if !m.failed {
		m.failed = true
		m.readErr = err
		close(m.fail)
	}
}

func (m *member) deliver(b []byte) bool {
	m.s.mu.Lock()
	dead := m.failed || m.isClosed
	m.s.mu.Unlock()
	if dead {
		return false
	}
	m.rx <- b
	m.s.mu.Lock()
	m.delivered++
	m.rxb += uint64(len(b))
	m.s.mu.Unlock()
	return true
}

type scriptDialer struct {
	s           *Sim
	members     []*member
	dialFail    int
	dials       int
	cfgs        []transport.DialConfig
	noHandshake int // the next n redials do not get the readiness frame
	times       []time.Duration
	// redial attempts that failed in a row (refused dial or no readiness frame), and the longest such row
	consecFail, maxConsecFail int
}

func (d *scriptDialer) Dial(c transport.DialConfig) (transport.Transport, error) {
	s := d.s
	s.mu.Lock()
	defer s.mu.Unlock()
	d.dials++
	d.cfgs = append(d.cfgs, c)
	d.times = append(d.times, s.Now())
	if d.dialFail > 0 {
		d.dialFail--
		s.stats["fault.dial-fail"]++
		d.noteAttempt(false)
		return nil, errDialRefused
	}
	m := &member{s: s, id: len(d.members), cfg: c, rx: make(chan []byte, 4096), fail: make(chan struct{}), closed: make(chan struct{})}
	d.members = append(d.members, m)
	if c.Reconnect {
		if d.noHandshake > 0 {
			d.noHandshake--
			s.stats["fault.handshake-read-fails"]++
			m.failed = true
			m.readErr = errors.New("dsim: handshake read failed")
			close(m.fail)
			d.noteAttempt(false)
		} else {
			m.rx <- []byte("ready") // the peer's readiness frame, consumed by reconnect()
			d.noteAttempt(true)
		}
	}
	return m, nil
}

func (d *scriptDialer) noteAttempt(ok bool) {
	if ok {
		d.consecFail = 0
		return
	}
	d.consecFail++
	if d.consecFail > d.maxConsecFail {
		d.maxConsecFail = d.consecFail
	}
}

func (d *scriptDialer) current() *member {
	d.s.mu.Lock()
	defer d.s.mu.Unlock()
	for i := len(d.members) - 1; i >= 0; i-- {
		m := d.members[i]
		if !m.failed && !m.isClosed {
			return m
		}
	}
	return nil
}

type rwRec struct {
	Op      *Op
	Payload string
	Task    int
}

func runC18(s *Sim) {
	t := s.T
	s.Family = "reconnect-transport"
	s.yieldDensity = Pick(t, "yield", 0, 0, 50, 200)
	d := &scriptDialer{s: s}
	maxAttempts := Pick(t, "max-attempts", 3, 1, 2, 5)
	interval := Pick(t, "interval", time.Second, 100*time.Millisecond, 3*time.Second)
	nWriters := Pick(t, "nwriters", 2, 1, 3, 4)
	steps := Pick(t, "steps", 60, 25, 120)
	if s.Tier == "thorough" {
		steps *= 3
	}
	faults := Pick(t, "nfaults", 2, 1, 3, 5)
	exhaust := t.Bool("exhaust-budget", 1, 3)
	closeEarly := t.Bool("close-early", 1, 4)
	// tasks: writers, then reader, then control
	readerT, ctlT := nWriters, nWriters+1
	s.NewTasks(nWriters + 2)
	// the application may leave the transport id to the library (it then makes one up and keeps it)
	wantID := transport.TransportID("tid-c18")
	if t.Bool("transport-id-left-to-the-library", 1, 4) {
		wantID = ""
	}
	dialsAtClose, slowClose := 0, false
	var tr *reconnect.Transport
	dial := &Op{Name: "reconnect.Dial", Run: func(ctx context.Context) (any, error) {
		x, err := reconnect.Dial(reconnect.DialConfig{Dialer: d, DialConfig: transport.DialConfig{Address: "sim", EncodingName: transport.EncodingNameProtobuf, TransportID: wantID},
			MaxReconnectAttempts: maxAttempts, ReconnectInterval: interval})
		if err != nil {
			return nil, err
		}
		return x, nil
	}}
	s.Start(ctlT, dial)
	s.Wait()
	s.Harvest()
	if !dial.harvested || dial.Err != nil {
		s.HarnessError("reconnect.Dial: %v", dial.Err)
		return
	}
	tr = dial.Res.(*reconnect.Transport)
	var writes, reads []*rwRec
	var peerData []string // data frames the peer handed to some incarnation, in order
	pings := 0
	n := 0
	closed := false
	gaveUpAt := time.Duration(-1)
	for step := 0; step < steps; step++ {
		var acts []Action
		cur := d.current()
		for ti := 0; ti < nWriters; ti++ {
			ti := ti
			if s.Idle(ti) {
				acts = append(acts, Action{Name: fmt.Sprintf("write t%d", ti), W: 8, Do: func() {
					n++
					p := fmt.Sprintf("w|t%d|%d", ti, n)
					rec := &rwRec{Payload: p, Task: ti}
					rec.Op = &Op{Name: "Write", Args: p, Meta: rec, Run: func(ctx context.Context) (any, error) { return nil, tr.Write([]byte(p)) }}
					writes = append(writes, rec)
					s.Start(ti, rec.Op)
				}})
			}
		}
		if s.Idle(readerT) {
			acts = append(acts, Action{Name: "read", W: 6, Do: func() {
				rec := &rwRec{}
				rec.Op = &Op{Name: "Read", Meta: rec, Run: func(ctx context.Context) (any, error) {
					b, err := tr.Read()
					if err != nil {
						return nil, err
					}
					return string(b), nil
				}}
				reads = append(reads, rec)
				s.Start(readerT, rec.Op)
			}})
		}
		if cur != nil {
			acts = append(acts, Action{Name: "peer-data", W: 6, Do: func() {
				n++
				p := fmt.Sprintf("r|%d", n)
				if cur.deliver([]byte(p)) {
					peerData = append(peerData, p)
				}
			}})
			acts = append(acts, Action{Name: "peer-ping", W: 2, Do: func() {
				if cur.deliver(reconnect.PingMessage) {
					pings++
					s.mu.Lock()
					cur.pingsIn++
					s.mu.Unlock()
				}
			}})
			if faults > 0 && !closed {
				acts = append(acts, Action{Name: "fault", W: 3, Do: func() {
					faults--
					s.Nontrivial()
					kind := Pick(t, "fault-kind", "read-error", "write-error", "both", "read-error+dial-fail", "read-error+handshake-fail", "write-error+dial-fail", "break-after-next-write")
					if kind == "break-after-next-write" {
						s.mu.Lock()
						cur.breakAfterWrite = true
						s.mu.Unlock()
						s.Logf("fault: member %d breaks right after the next accepted write", cur.id)
						return
					}
					if strings.Contains(kind, "dial-fail") {
						k := Pick(t, "dialfail-n", 1, 2, maxAttempts-1)
						if exhaust {
							k = maxAttempts + 2
						}
						if k < 1 {
							k = 1
						}
						s.mu.Lock()
						d.dialFail += k
						s.mu.Unlock()
					}
					if strings.Contains(kind, "handshake-fail") {
						hs := Pick(t, "hs-n", 1, 2)
						if exhaust {
							// from now on every redial connects and then dies before its first frame: such
							// attempts use up the budget like refused dials do
							hs = 1 << 20
						}
						s.mu.Lock()
						d.noHandshake += hs
						s.mu.Unlock()
					}
					if strings.Contains(kind, "write-error") || kind == "both" {
						s.mu.Lock()
						cur.failNextWrites++
						s.mu.Unlock()
					}
					if strings.Contains(kind, "read-error") || kind == "both" {
						cur.failRead(Pick(t, "read-err", errors.New("dsim: connection reset"), error(transport.EOF), error(transport.ErrAlreadyClosed)))
						s.Stat("fault.read-error")
					}
					s.Logf("fault: %s on member %d", kind, cur.id)
				}})
			}
		}
		if closeEarly && !closed && s.Idle(ctlT) && step > steps/3 {
			acts = append(acts, Action{Name: "close", W: 1, Do: func() {
				closed = true
				if cur := d.current(); cur != nil && t.Bool("close-reports-error", 1, 2) {
					s.mu.Lock()
					cur.closeErr = errors.New("dsim: close frame could not be sent")
					s.mu.Unlock()
				}
				if cur := d.current(); cur != nil && t.Bool("close-handshake-takes-time", 1, 2) {
					s.mu.Lock()
					cur.closeDelay = 200 * time.Millisecond
					dialsAtClose = d.dials
					slowClose = true
					s.mu.Unlock()
				}
				s.Start(ctlT, &Op{Name: "Close", Run: func(ctx context.Context) (any, error) { return nil, tr.Close() }})
			}})
		}
		acts = append(acts, Action{Name: "advance", W: 4, Do: func() {
			s.Advance(Pick(t, "adv", interval, time.Millisecond, interval/2, 3*interval))
		}})
		s.Step(acts)
	}
	// settle: no more faults; give the redial budget time to run out or succeed
	s.mu.Lock()
	if !exhaust {
		d.dialFail, d.noHandshake = 0, 0
	}
	s.mu.Unlock()
	bound := time.Duration(maxAttempts+1)*interval + time.Second
	s.Advance(bound)
	s.Advance(bound)
	_ = gaveUpAt
	stuck := func() []*Op {
		var out []*Op
		for _, tk := range s.tasks {
			if tk.busy != nil {
				out = append(out, tk.busy)
			}
		}
		return out
	}
	// a pending Read on a healthy transport legitimately waits for data; everything else must have returned
	alive := d.current() != nil && !closed
	for _, op := range stuck() {
		if op.Name == "Read" && alive {
			continue
		}
		s.Violate("C18.blocks", op.Name+map[bool]string{true: ":after-close", false: ""}[closed]+map[bool]string{true: ":budget-exhausted", false: ""}[!alive && !closed],
			"%s(%s) still blocked %v after the last fault (max attempts %d, interval %v, transport alive=%v, closed=%v, dials=%d)", op.Name, op.Args, 2*bound, maxAttempts, interval, alive, closed, d.dials)
	}
	// the redial budget is per outage: as long as fewer attempts than the budget failed in a row, the
	// transport never gives up, however many outages there were
	s.mu.Lock()
	worstRow := d.maxConsecFail
	s.mu.Unlock()
	if !exhaust && !closed && worstRow < maxAttempts {
		s.Stat("c18.budget-never-exhausted")
		var op *Op
		if s.Idle(0) {
			op = &Op{Name: "Write", Args: "still-alive", Run: func(ctx context.Context) (any, error) { return nil, tr.Write([]byte("w|still-alive")) }}
			s.Start(0, op)
			s.Wait()
			s.Advance(bound)
		}
		switch {
		case d.current() == nil:
			s.Violate("C18.gave-up-within-budget", "no-connection", "the transport has no working connection after the last fault although at most %d redial attempts failed in a row (budget %d per outage, %d dials in total)", worstRow, maxAttempts, d.dials)
		case op != nil && op.harvested && op.Err != nil:
			s.Violate("C18.gave-up-within-budget", "write-fails", "Write fails with %q after the last fault although at most %d redial attempts failed in a row (budget %d per outage, %d dials in total)", errString(op.Err), worstRow, maxAttempts, d.dials)
		}
		if op != nil && op.harvested && op.Err == nil {
			rec := &rwRec{Payload: "w|still-alive", Task: 0, Op: op}
			writes = append(writes, rec)
			// the transport is provably alive: the connection it uses now has answered every control
			// ping it received, on itself
			if cur := d.current(); cur != nil {
				s.mu.Lock()
				in, out := cur.pingsIn, 0
				for _, b := range cur.accepted {
					if reconnect.IsPong(b) {
						out++
					}
				}
				s.mu.Unlock()
				if out < in { // (a pong for a ping of the previous connection may legitimately land here as well)
					s.Violate("C18.ping-unanswered", "", "connection %d (in use at the end, a write just succeeded on it) received %d control pings but only %d pongs were written to it", cur.id, in, out)
				}
			}
		}
	}
	alive = d.current() != nil && !closed
	// later calls after give-up / Close fail instead of blocking
	if !alive {
		for _, name := range []string{"Write", "Read"} {
			ti := 0
			if name == "Read" {
				ti = readerT
			}
			if !s.Idle(ti) {
				continue
			}
			var op *Op
			if name == "Write" {
				op = &Op{Name: "Write", Args: "late", Run: func(ctx context.Context) (any, error) { return nil, tr.Write([]byte("late")) }}
			} else {
				op = &Op{Name: "Read", Args: "late", Run: func(ctx context.Context) (any, error) { _, err := tr.Read(); return nil, err }}
			}
			s.Start(ti, op)
			s.Wait()
			s.Advance(bound)
			// data the transport had read before it died may still be handed out: drain it
			for k := 0; k < 1100 && name == "Read" && op.harvested && op.Err == nil; k++ {
				op = &Op{Name: "Read", Args: "late", Run: func(ctx context.Context) (any, error) { _, err := tr.Read(); return nil, err }}
				s.Start(ti, op)
				s.Wait()
				s.Advance(bound)
			}
			if !op.harvested {
				s.Violate("C18.blocks", "late-"+name+map[bool]string{true: ":after-close", false: ":budget-exhausted"}[closed], "%s issued after the transport gave up / was closed blocks instead of failing (waited %v)", name, bound)
			} else if op.Err == nil {
				s.Violate("C18.succeeds-when-dead", name, "%s issued after the transport gave up / was closed returned nil", name)
			}
		}
	}
	s.Nontrivial()
	// ---- accepted-exactly-once, ordered across incarnations ----
	type acc struct {
		inc int
		pos int64
	}
	where := map[string][]acc{}
	pongs := 0
	s.mu.Lock()
	for _, m := range d.members {
		for i, b := range m.accepted {
			if reconnect.IsPong(b) {
				pongs++
				continue
			}
			where[string(b)] = append(where[string(b)], acc{m.id, m.acceptedAt[i]})
		}
	}
	s.mu.Unlock()
	okWrites := map[int][]*rwRec{}
	for _, w := range writes {
		if !w.Op.harvested {
			continue
		}
		a := where[w.Payload]
		if w.Op.Err == nil {
			if len(a) != 1 {
				s.Violate("C18.write-not-exactly-once", fmt.Sprintf("accepted=%d", len(a)), "Write(%s) returned nil but was accepted by %d underlying connection writes %v", w.Payload, len(a), a)
				continue
			}
			okWrites[w.Task] = append(okWrites[w.Task], w)
		} else if len(a) > 1 {
			s.Violate("C18.write-duplicated", "", "Write(%s) failed with %q but reached underlying connections %d times", w.Payload, errString(w.Op.Err), len(a))
		}
	}
	var all []*rwRec
	for _, ws := range okWrites {
		for i := 1; i < len(ws); i++ {
			if where[ws[i-1].Payload][0].pos > where[ws[i].Payload][0].pos {
				s.Violate("C18.write-reordered", "program-order", "writes %s then %s of one writer were accepted in the opposite order", ws[i-1].Payload, ws[i].Payload)
			}
		}
		all = append(all, ws...)
	}
	for _, w1 := range all {
		for _, w2 := range all {
			if w1.Op.Return < w2.Op.Invoke && where[w1.Payload][0].pos > where[w2.Payload][0].pos {
				s.Violate("C18.write-reordered", "real-time", "Write(%s) returned before Write(%s) was issued but was accepted after it", w1.Payload, w2.Payload)
			}
			// under quiescent stepping a Write has been queued by the transport before the next one is
			// issued, so "the order they were issued" is the invocation order even for overlapping calls
			if s.BurstMax == 0 && w1.Op.Invoke < w2.Op.Invoke && where[w1.Payload][0].pos > where[w2.Payload][0].pos {
				s.Violate("C18.write-reordered", "issue-order", "Write(%s) was issued (and queued) before Write(%s) but was accepted by the underlying connections after it", w1.Payload, w2.Payload)
			}
		}
	}
	// a Close whose underlying close handshake takes a while: nothing is dialled any more once Close was called
	if slowClose {
		s.mu.Lock()
		nd := d.dials
		s.mu.Unlock()
		if nd > dialsAtClose {
			s.Violate("C18.redial-during-close", "", "%d dial(s) after Close had been called (the underlying connection's close took 200 ms)", nd-dialsAtClose)
		}
	}
	// redials carry the identity
	for i, c := range d.cfgs {
		switch {
		case wantID != "" && c.TransportID != wantID:
			s.Violate("C18.transport-id", "", "dial #%d carried transport id %q", i+1, c.TransportID)
		case wantID == "" && c.TransportID == "":
			s.Violate("C18.transport-id", "generated:empty", "dial #%d carried no transport id (none was configured: the library generates one)", i+1)
		case wantID == "" && c.TransportID != d.cfgs[0].TransportID:
			s.Violate("C18.transport-id", "generated", "dial #%d carried transport id %q, the first dial %q", i+1, c.TransportID, d.cfgs[0].TransportID)
		}
		if i > 0 && !c.Reconnect {
			s.Violate("C18.reconnect-flag", "", "redial #%d did not set the reconnect flag", i+1)
		}
		if i == 0 && c.Reconnect {
			s.Violate("C18.reconnect-flag", "first", "the first dial set the reconnect flag")
		}
	}
	// reads: what Read returned is a subsequence of the peer's data in order, never a control ping
	var got []string
	for _, r := range reads {
		if r.Op.harvested && r.Op.Err == nil {
			v := r.Op.Res.(string)
			if v == string(reconnect.PingMessage) {
				s.Violate("C18.ping-surfaced", "", "Read returned the control ping")
			}
			got = append(got, v)
		}
	}
	j := 0
	for _, g := range got {
		for j < len(peerData) && peerData[j] != g {
			j++
		}
		if j == len(peerData) {
			s.Violate("C18.read-order", "", "Read returned %q out of order or twice (peer sent %v, Read returned %v)", g, firstN(peerData, 8), firstN(got, 8))
			break
		}
		j++
	}
	if pongs > pings {
		s.Violate("C18.pong-count", "", "%d pongs written for %d control pings", pongs, pings)
	}
	s.sample = map[string]any{"writers": nWriters, "writes": len(writes), "reads": len(reads), "members": len(d.members), "dials": d.dials, "max_attempts": maxAttempts, "interval": interval.String(), "exhaust": exhaust, "closed": closed}
	// teardown
	if !closed && s.Idle(ctlT) {
		s.Start(ctlT, &Op{Name: "Close", Run: func(ctx context.Context) (any, error) { return nil, tr.Close() }})
		s.Wait()
	}
	s.mu.Lock()
	d.dialFail = 1 << 20
	s.mu.Unlock()
	for _, m := range d.members {
		m.failRead(transport.ErrAlreadyClosed)
	}
	s.Wait()
	for i := 0; i < 20; i++ {
		time.Sleep(bound)
		s.Wait()
	}
	s.Harvest()
	if !s.AnyBusy() {
		s.stopTasks()
	}
	s.Wait()
}
