package dsim

import (
	"context"
	"fmt"
	"time"

	"github.com/aptpod/iscp-go/encoding"
	"github.com/aptpod/iscp-go/message"
	"github.com/aptpod/iscp-go/transport"
	"github.com/aptpod/iscp-go/wire"
)

// C12, wire-level part: "arbitrary frames to the wire connection's read path never hang".
// A wire.ClientConn is driven directly (the layer the statement names) over the simulated link.
// Its owner has opened an upstream and a downstream but is slow: nobody takes the per-stream
// channels. The broker then sends far more well-formed acks / chunks for those streams than the
// channels hold. Whatever happens to the surplus, the read path keeps taking frames off the
// transport: a broker ping is still answered, without any clock advance.

func runC12Wire(s *Sim) {
	t := s.T
	s.Family = "hostile-frames/wire-level-flood"
	bc := BrokerCfg{AutoReq: true, AutoAck: false, AutoPong: true, AutoCallAck: true, AutoAckComplete: true}
	y := newSys(s, bc)
	_ = y
	encName := Pick(t, "enc", transport.EncodingNameProtobuf, transport.EncodingNameJSON)
	tr, err := s.Net.Dial(transport.DialConfig{Address: "sim", EncodingName: encName})
	if err != nil {
		s.HarnessError("dial: %v", err)
		return
	}
	l := tr.(*Link)
	et := encoding.NewTransport(&encoding.TransportConfig{Transport: l, Encoding: l.enc})
	s.NewTasks(2)
	var cc *wire.ClientConn
	conn := &Op{Name: "wire.Connect", Run: func(ctx context.Context) (any, error) {
		c, err := wire.Connect(&wire.ClientConnConfig{Transport: et, NodeID: "wire-node", AccessToken: "tok", ProtocolVersion: "2.0.0",
			PingInterval: time.Hour, PingTimeout: time.Hour})
		if err != nil {
			return nil, err
		}
		return c, nil
	}}
	s.Start(0, conn)
	s.Wait()
	for i := 0; i < 10 && !conn.harvested; i++ {
		l.IngestAll()
		s.Broker.ReleaseAll()
		l.DeliverAll()
		s.Wait()
		s.Harvest()
	}
	if !conn.harvested || conn.Err != nil {
		s.HarnessError("wire.Connect did not succeed: %v", conn.Err)
		return
	}
	cc = conn.Res.(*wire.ClientConn)
	pump := func() {
		for i := 0; i < 6; i++ {
			l.IngestAll()
			s.Broker.ReleaseAll()
			l.DeliverAll()
			s.Wait()
			s.Harvest()
		}
	}
	var upAlias uint32
	openUp := &Op{Name: "wire.SendUpstreamOpenRequest", Run: func(ctx context.Context) (any, error) {
		r, err := cc.SendUpstreamOpenRequest(ctx, &message.UpstreamOpenRequest{SessionID: "wire-flood", QoS: message.QoSReliable, ExpiryInterval: time.Minute})
		if err != nil {
			return nil, err
		}
		return r.AssignedStreamIDAlias, nil
	}}
	s.Start(0, openUp)
	s.Wait()
	pump()
	if !openUp.harvested || openUp.Err != nil {
		s.HarnessError("upstream open at wire level: %v", openUp.Err)
		return
	}
	upAlias = openUp.Res.(uint32)
	const downAlias = 7
	openDown := &Op{Name: "wire.SendDownstreamOpenRequest", Run: func(ctx context.Context) (any, error) {
		_, err := cc.SendDownstreamOpenRequest(ctx, &message.DownstreamOpenRequest{DesiredStreamIDAlias: downAlias, QoS: message.QoSReliable, ExpiryInterval: time.Minute,
			DownstreamFilters: []*message.DownstreamFilter{message.NewDownstreamFilterAllFor("node-1")}})
		return nil, err
	}}
	s.Start(0, openDown)
	s.Wait()
	pump()
	if !openDown.harvested || openDown.Err != nil {
		s.HarnessError("downstream open at wire level: %v", openDown.Err)
		return
	}
	// the owner subscribes but does not drain
	if _, err := cc.SubscribeUpstreamChunkAck(context.Background(), upAlias); err != nil {
		s.HarnessError("subscribe acks: %v", err)
		return
	}
	if _, err := cc.SubscribeDownstreamChunk(context.Background(), downAlias, message.QoSReliable); err != nil {
		s.HarnessError("subscribe chunks: %v", err)
		return
	}
	pingAnswered := func() (uint32, bool) {
		id := s.Broker.EmitPing(l)
		l.DeliverAll()
		s.Wait()
		l.IngestAll()
		if bcn := l.bc; bcn != nil {
			for _, p := range bcn.Pongs {
				if p == id {
					return id, true
				}
			}
		}
		return id, false
	}
	if _, ok := pingAnswered(); !ok {
		s.HarnessError("wire-level connection does not answer a ping before the flood")
		return
	}
	s.Nontrivial()
	kind := Pick(t, "flood-kind", "upstream-acks", "downstream-chunks", "both")
	n := Pick(t, "flood-n", 1200, 1040, 2500)
	info := message.UpstreamInfo{SessionID: "remote", SourceNodeID: "node-1", StreamID: mkUUID(0xE7, 1)}
	for k := 0; k < n; k++ {
		if kind != "downstream-chunks" {
			l.push(&message.UpstreamChunkAck{StreamIDAlias: upAlias, Results: []*message.UpstreamChunkResult{{SequenceNumber: uint32(k + 1), ResultCode: message.ResultCodeSucceeded, ResultString: "flood"}}})
		}
		if kind != "upstream-acks" {
			inf := info
			l.push(&message.DownstreamChunk{StreamIDAlias: downAlias, UpstreamOrAlias: &inf, StreamChunk: &message.StreamChunk{SequenceNumber: uint32(k + 1),
				DataPointGroups: []*message.DataPointGroup{{DataIDOrAlias: &message.DataID{Name: "n", Type: "t"}, DataPoints: []*message.DataPoint{{ElapsedTime: time.Duration(k), Payload: []byte("x")}}}}}})
		}
	}
	s.StatN("env.wire-level-flood-frames", n)
	l.DeliverAll()
	s.Wait()
	if id, ok := pingAnswered(); !ok && l.Alive() {
		s.Violate("C12.read-path-wedged", kind, "wire.ClientConn whose owner does not take the per-stream channels received %d well-formed %s for its live streams; afterwards a broker ping (id %d) is not answered: the read path no longer takes frames off the transport", n, kind, id)
	}
	s.sample = map[string]any{"mode": "wire-level-flood", "kind": kind, "frames": n, "encoding": fmt.Sprint(encName)}
	done := make(chan struct{})
	go func() { defer close(done); cc.Close() }()
	s.Wait()
	l.Kill(errEOF, errClosed)
	s.Wait()
	time.Sleep(3 * time.Second)
	s.Wait()
	s.stopTasks()
	s.Wait()
}
