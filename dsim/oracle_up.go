package dsim

import (
	"context"
	"fmt"
	"io"
	"sort"
	"time"

	"github.com/aptpod/iscp-go/message"
	"github.com/aptpod/iscp-go/transport"
)

var (
	errEOF    = io.EOF
	errClosed = transport.ErrAlreadyClosed
)

func context_bg() context.Context { return context.Background() }

func ptKey(p pt) string { return fmt.Sprintf("%s|%d|%s", p.ID.String(), int64(p.Elapsed), p.Payload) }

func multiset(ps []pt) map[string]int {
	m := map[string]int{}
	for _, p := range ps {
		m[ptKey(p)]++
	}
	return m
}

// diffMultiset returns up to n examples of keys whose counts differ.
func diffMultiset(want, got map[string]int, n int) (missing, extra []string) {
	for k, c := range want {
		if got[k] < c {
			missing = append(missing, trunc(k, 60))
		}
	}
	for k, c := range got {
		if want[k] < c {
			extra = append(extra, trunc(k, 60))
		}
	}
	sort.Strings(missing)
	sort.Strings(extra)
	if len(missing) > n {
		missing = missing[:n]
	}
	if len(extra) > n {
		extra = extra[:n]
	}
	return
}

// oracleC01: on a loss-free connection the broker ledger equals what was written.
func oracleC01(s *Sim, y *Sys) {
	for _, h := range y.Ups {
		if h.B == nil || h.CloseOp == nil || !h.CloseOp.harvested {
			continue
		}
		u := fmt.Sprintf("u%d", h.Idx)
		if h.CloseOp.Err != nil {
			// the statement is about histories followed by a successful Close
			s.Stat("c01.close-failed")
			continue
		}
		// (a) multiset
		var accepted, rejected []pt
		for _, w := range h.Writes {
			if !w.Op.harvested {
				continue
			}
			if w.Op.Err == nil {
				accepted = append(accepted, w.Points...)
			} else {
				rejected = append(rejected, w.Points...)
			}
		}
		var got []pt
		for _, a := range h.B.Arrivals {
			if a.DecodeErr != "" {
				s.Violate("C01.undecodable-chunk", "alias", "%s seq %d: %s", u, a.Seq, a.DecodeErr)
			}
			got = append(got, a.Points...)
		}
		want := multiset(accepted)
		have := multiset(got)
		rej := multiset(rejected)
		missing, extra := diffMultiset(want, have, 3)
		if len(missing) > 0 {
			s.Violate("C01.lost-point", h.Spec.Policy, "%s: %d accepted points, broker saw %d; missing e.g. %v", u, len(accepted), len(got), missing)
		}
		if len(extra) > 0 {
			kind := "C01.duplicated-or-altered-point"
			for _, e := range extra {
				_ = e
			}
			for k := range have {
				if want[k] < have[k] && rej[k] > 0 {
					kind = "C01.point-of-failed-write-sent"
				}
			}
			s.Violate(kind, h.Spec.Policy, "%s: broker saw points that were not accepted (or more often than accepted), e.g. %v", u, extra)
		}
		// (b) order per (task, data id) = program order, and real-time order across tasks
		pos := map[string][2]int{} // key -> (arrival order, index in chunk)
		sorted := append([]*chunkArrival(nil), h.B.Arrivals...)
		sort.SliceStable(sorted, func(i, j int) bool { return sorted[i].Seq < sorted[j].Seq })
		for ai, a := range sorted {
			for pi, p := range a.Points {
				pos[ptKey(p)] = [2]int{ai, pi}
			}
		}
		less := func(a, b [2]int) bool { return a[0] < b[0] || (a[0] == b[0] && a[1] < b[1]) }
		lastOf := map[string]*writeRec{}
		var okWrites []*writeRec
		for _, w := range h.Writes {
			if w.Op.harvested && w.Op.Err == nil && len(w.Points) > 0 {
				okWrites = append(okWrites, w)
			}
		}
		for _, w := range okWrites {
			// inside one write
			for i := 1; i < len(w.Points); i++ {
				a, oka := pos[ptKey(w.Points[i-1])]
				b, okb := pos[ptKey(w.Points[i])]
				if oka && okb && !less(a, b) {
					s.Violate("C01.order", "within-write", "%s: points of one write arrive out of order (%v then %v)", u, w.Points[i-1], w.Points[i])
				}
			}
			k := fmt.Sprintf("%d|%s", w.Op.Task, w.ID.String())
			if prev := lastOf[k]; prev != nil {
				a, oka := pos[ptKey(prev.Points[len(prev.Points)-1])]
				b, okb := pos[ptKey(w.Points[0])]
				if oka && okb && !less(a, b) {
					s.Violate("C01.order", "program-order", "%s: data id %s: write op%d arrives before earlier write op%d of the same task", u, w.ID.Name, w.Op.ID, prev.Op.ID)
				}
			}
			lastOf[k] = w
		}
		// real-time order between non-overlapping writes of the same data id from different tasks
		for i, w1 := range okWrites {
			for _, w2 := range okWrites[i+1:] {
				if w1.ID != w2.ID || w1.Op.Task == w2.Op.Task {
					continue
				}
				if w1.Op.Return < w2.Op.Invoke {
					a, oka := pos[ptKey(w1.Points[len(w1.Points)-1])]
					b, okb := pos[ptKey(w2.Points[0])]
					if oka && okb && !less(a, b) {
						s.Violate("C01.order", "real-time", "%s: data id %s: write op%d returned before op%d was invoked but arrives after it", u, w1.ID.Name, w1.Op.ID, w2.Op.ID)
					}
				}
			}
		}
		// (c) sequence numbers 1..N once each
		seen := map[uint32]int{}
		var maxSeq uint32
		for _, a := range h.B.Arrivals {
			seen[a.Seq]++
			if a.Seq > maxSeq {
				maxSeq = a.Seq
			}
		}
		n := uint32(len(h.B.Arrivals))
		for q, c := range seen {
			if c > 1 {
				s.Violate("C01.seq-reused", "", "%s: sequence number %d used by %d chunks", u, q, c)
			}
		}
		if maxSeq != uint32(len(seen)) {
			s.Violate("C01.seq-gap", "", "%s: %d distinct sequence numbers but the largest is %d", u, len(seen), maxSeq)
		}
		// (d) close totals
		if len(h.B.CloseReqs) != 1 {
			s.Violate("C01.close-request-count", "", "%s: %d close requests for one successful Close", u, len(h.B.CloseReqs))
		} else {
			cr := h.B.CloseReqs[0]
			if cr.FinalSeq != n && len(seen) == int(n) {
				s.Violate("C01.close-final-seq", "", "%s: close request says final sequence number %d, broker received %d chunks", u, cr.FinalSeq, n)
			}
			if cr.Total != uint64(len(got)) {
				s.Violate("C01.close-total", "", "%s: close request says %d points, broker received %d", u, cr.Total, len(got))
			}
		}
		// (e) nothing after the close request
		for _, a := range h.B.Arrivals {
			if a.AfterClose {
				s.Violate("C01.chunk-after-close", "", "%s: chunk seq %d reached the broker after the close request", u, a.Seq)
			}
		}
		// (f) ack hook, as observable when Close has returned
		// with application hooks that take time the dispatcher may lag behind Close (recorded finding);
		// the locus keeps that case apart from hooks that return at once
		hl := ""
		if h.HookDelay > 0 {
			hl = "slow-hooks"
		}
		// with an ack timeout that can expire within the run the stream gives up waiting for a result
		// by design (Close does not wait for it either): the drain rules are stated for streams that wait
		shortAckTO := h.Spec.AckTimeout > 0 && h.Spec.AckTimeout < time.Hour
		if cv, ok := h.CloseOp.Meta.(*closeView); ok && cv.allAcked && !shortAckTO {
			s.Stat("c01.all-acked-at-close")
			rep := map[uint32][]message.ResultCode{}
			for _, r := range cv.after {
				rep[r.Seq] = append(rep[r.Seq], r.Code)
			}
			for q, sent := range h.B.ResultsSent {
				got := rep[q]
				if len(got) == 0 {
					s.Violate("C01.ack-hook-missing", hl, "%s: broker acknowledged seq %d (%v) but the ack hook had not been told when Close returned (first quiescence, no clock advance; hooks take %v)", u, q, sent, h.HookDelay)
					continue
				}
				if len(got) > len(sent) {
					s.Violate("C01.ack-hook-duplicate", "", "%s: seq %d reported %d times to the ack hook, broker sent %d result(s)", u, q, len(got), len(sent))
				}
				if len(sent) == 1 && len(got) != 1 {
					s.Violate("C01.ack-hook-duplicate", "", "%s: seq %d reported %d times, broker sent exactly one result", u, q, len(got))
				}
				for _, c := range got {
					found := false
					for _, x := range sent {
						if x == c {
							found = true
						}
					}
					if !found {
						s.Violate("C01.ack-hook-code", "", "%s: seq %d reported with code %v, broker sent %v", u, q, c, sent)
					}
				}
			}
			for q := range rep {
				if len(h.B.ResultsSent[q]) == 0 {
					s.Violate("C01.ack-hook-invented", "", "%s: ack hook told about seq %d which the broker never acknowledged", u, q)
				}
			}
		}
		// (f') Close is a drain: unless the close timeout (or the caller's context) ended the wait, it
		// does not return before the result of every chunk it cut has come back and been reported
		if cv, ok := h.CloseOp.Meta.(*closeView); ok && !shortAckTO {
			cto := h.Spec.CloseTimeout
			if cto == 0 {
				cto = 10 * time.Second
			}
			if cv.elapsed < cto {
				rep := map[uint32]bool{}
				for _, r := range cv.after {
					rep[r.Seq] = true
				}
				for _, q := range cv.cutSeqs {
					if !rep[q] {
						s.Violate("C01.close-returned-before-ack", hl, "%s: Close returned nil after %v (close timeout %v) although the result of chunk seq %d had not come back: the broker acknowledges every chunk (possibly out of order), so every result must have been reported to the ack hook by the time Close returns", u, cv.elapsed, cto, q)
						break
					}
				}
			}
		}
		// (f'') at the end of the run (every handler has had time to run): each result the broker sent
		// was reported exactly once, whatever the speed of the hooks
		{
			cnt := map[uint32]int{}
			for _, r := range h.After {
				cnt[r.Seq]++
			}
			for q, sent := range h.B.ResultsSent {
				if shortAckTO {
					// only results that were handed to the client while the stream was open and not yet
					// closing are demanded (late ones included: a result that arrives after its ack
					// timeout is still a result)
					delivered := false
					for _, l := range y.allLinks() {
						if a, ok := h.B.aliasOn[l.ID]; ok {
							if at, ok := l.AckDeliveredAt[[2]uint32{a, q}]; ok && at < h.CloseOp.Invoke {
								delivered = true
							}
						}
					}
					if !delivered {
						continue
					}
				}
				if len(sent) == 1 && cnt[q] != 1 {
					s.Violate("C01.ack-hook-count", "end-of-run", "%s: the broker sent exactly one result for seq %d; by the end of the run the ack hook was told %d times (hooks take %v)", u, q, cnt[q], h.HookDelay)
					break
				}
			}
		}
		// (g) send hook: once per chunk, with the transmitted content (checked at the end of the run)
		bySeq := map[uint32][]hookBeforeRec{}
		for _, r := range h.Before {
			bySeq[r.Seq] = append(bySeq[r.Seq], r)
		}
		for _, a := range h.B.Arrivals {
			rs := bySeq[a.Seq]
			if len(rs) != 1 {
				s.Violate("C01.send-hook-count", "", "%s: chunk seq %d announced %d times to the send hook", u, a.Seq, len(rs))
				continue
			}
			m, e := diffMultiset(multiset(rs[0].Points), multiset(a.Points), 2)
			if len(m) > 0 || len(e) > 0 {
				s.Violate("C01.send-hook-content", "", "%s: chunk seq %d: send hook saw %v, wire carried %v", u, a.Seq, m, e)
			}
		}
		for q := range bySeq {
			if seen[q] == 0 {
				s.Violate("C01.send-hook-phantom", "", "%s: send hook announced seq %d which never reached the broker", u, q)
			}
		}
	}
	for _, x := range s.Broker.Unknown {
		s.Violate("C01.unattributable-frame", "", "broker received %s", x)
	}
}

// oracleC20: flush barrier, policy cut points, snapshot conservation, no empty chunk.
func oracleC20(s *Sim, y *Sys) {
	for _, h := range y.Ups {
		if h.B == nil {
			continue
		}
		u := fmt.Sprintf("u%d", h.Idx)
		pol := h.Spec.Policy
		arrBySeq := map[uint32]*chunkArrival{}
		pointSeq := map[string]uint32{}
		// a chunk retransmitted after a resume arrives twice: the first arrival is the cut
		var arrivals []*chunkArrival
		for _, a := range h.B.Arrivals {
			if arrBySeq[a.Seq] == nil {
				arrBySeq[a.Seq] = a
				arrivals = append(arrivals, a)
			}
		}
		for _, a := range arrivals {
			arrBySeq[a.Seq] = a
			for _, p := range a.Points {
				pointSeq[ptKey(p)] = a.Seq
			}
			if len(a.Points) == 0 {
				s.Violate("C20.empty-chunk", pol, "%s: chunk seq %d carries no data point (%d groups)", u, a.Seq, a.Groups)
			}
		}
		// the same goroutine wrote and then flushed: after its Flush has returned nil none of its own points
		// is still buffered (it would have been left behind by a flush that ran before the write was taken)
		for _, wf := range h.WriteFlushes {
			res, _ := wf.Res.(*writeFlushRes)
			if !wf.harvested || wf.Err != nil || res == nil || res.FlushErr != nil {
				continue
			}
			if len(res.OwnStillBuffered) > 0 {
				s.Violate("C20.flush-barrier", pol+":write-then-flush", "%s: op%d wrote %d points and then called Flush, which returned nil; State() right afterwards still shows %d of them in the buffer (last issued sequence number %d)", u, wf.ID, len(wf.Meta.(*writeRec).Points), len(res.OwnStillBuffered), res.LastSeq)
			}
		}
		// barrier: Flush returned nil => every write that had returned before its invocation is in a chunk
		// with seq <= LastIssuedSequenceNumber observed afterwards
		for _, f := range h.Flushes {
			if !f.harvested || f.Err != nil {
				continue
			}
			fb, _ := f.Meta.(*flushBarrier)
			fr, _ := f.Res.(*flushReturn)
			stillBuffered := map[string]bool{}
			if fr != nil {
				for _, k := range fr.Buffered {
					stillBuffered[k] = true
				}
			}
			for _, w := range h.Writes {
				if !(w.Op.harvested && w.Op.Err == nil && w.Op.Return < f.Invoke) {
					continue
				}
				for _, p := range w.Points {
					q, ok := pointSeq[ptKey(p)]
					if !ok {
						s.Violate("C20.flush-barrier", pol, "%s: Flush op%d returned nil but point %v of earlier write op%d never reached the broker", u, f.ID, p, w.Op.ID)
						continue
					}
					if fb != nil && q > fb.snap.LastSeq {
						s.Violate("C20.flush-barrier", pol, "%s: point of write op%d is in seq %d > last issued %d observed after Flush", u, w.Op.ID, q, fb.snap.LastSeq)
					}
					// the same, as the caller itself sees it the moment Flush returns (concurrent
					// writers may add to the buffer, but nothing accepted before the call is left in it)
					if fr != nil && q > fr.LastSeq {
						s.Violate("C20.flush-barrier", pol+":at-return", "%s: Flush op%d returned nil with last issued sequence number %d, but point %v of write op%d (returned before Flush was called) was cut into seq %d only later", u, f.ID, fr.LastSeq, p, w.Op.ID, q)
					}
					if fr != nil && stillBuffered[ptKey(p)] {
						s.Violate("C20.buffer-after-flush", pol+":at-return", "%s: Flush op%d returned nil but point %v of write op%d (returned before Flush was called) is still in the visible buffer", u, f.ID, p, w.Op.ID)
					}
				}
			}
			if fb != nil {
				if fb.snap.Buffered != 0 {
					s.Violate("C20.buffer-after-flush", pol, "%s: %d points still buffered right after Flush returned with no concurrent writer", u, fb.snap.Buffered)
				}
				if int(fb.snap.Total)+fb.snap.Buffered != fb.snap.Accepted {
					s.Violate("C20.snapshot-after-flush", pol, "%s: after Flush sent(%d)+buffered(%d) != accepted(%d)", u, fb.snap.Total, fb.snap.Buffered, fb.snap.Accepted)
				}
			}
		}
		// snapshots never invent data: sent + buffered <= accepted + in-flight
		for _, sn := range h.Snaps {
			inflight := 0
			if sn.Busy {
				for _, w := range h.Writes {
					if w.Op.Invoke <= sn.AtSeq && (!w.Op.harvested || w.Op.Return > sn.AtSeq) {
						inflight += len(w.Points)
					}
				}
			}
			if int(sn.Total)+sn.Buffered > sn.Accepted+inflight {
				s.Violate("C20.snapshot-invents", pol, "%s: snapshot reports sent %d + buffered %d > accepted %d (+%d in flight)", u, sn.Total, sn.Buffered, sn.Accepted, inflight)
			}
		}
		// policy-specific cut points
		flushOrClose := func(a *chunkArrival) bool {
			// a chunk is attributable to an explicit Flush/Close if it was written to the link
			// while one of them was in progress (simulated time only moves between scheduler
			// steps, so "in progress" is closed on both ends)
			for _, f := range append(append([]*Op(nil), h.Flushes...), h.WriteFlushes...) {
				if f.InvokeT <= a.SentAt && (!f.harvested || a.SentAt <= f.ReturnT) {
					return true
				}
			}
			if c := h.CloseOp; c != nil && c.InvokeT <= a.SentAt {
				return true
			}
			return false
		}
		switch pol {
		case "none":
			for _, a := range arrivals {
				if !flushOrClose(a) {
					s.Violate("C20.none-policy-sent", pol, "%s: chunk seq %d was transmitted before any Flush or Close was called", u, a.Seq)
				}
			}
		case "immediate":
			// every non-empty write is cut on its own: a chunk never mixes points of two writes
			owner := map[string]int{}
			for _, w := range h.Writes {
				for _, p := range w.Points {
					owner[ptKey(p)] = w.Op.ID
				}
			}
			for _, a := range arrivals {
				ids := map[int]bool{}
				for _, p := range a.Points {
					ids[owner[ptKey(p)]] = true
				}
				if len(ids) > 1 {
					s.Violate("C20.immediate-merged", pol, "%s: chunk seq %d contains points of %d different writes under the immediate policy", u, a.Seq, len(ids))
				}
			}
		case "size":
			// single-writer exact model is checked in oracleC20Size; here: every chunk not caused by
			// Flush/Close exceeds the threshold
			for _, a := range arrivals {
				if flushOrClose(a) {
					continue
				}
				sz := 0
				for _, p := range a.Points {
					sz += len(p.Payload)
				}
				if uint32(sz) <= h.Spec.Size {
					s.Violate("C20.size-cut-early", pol, "%s: chunk seq %d cut at %d bytes, threshold %d, without Flush/Close", u, a.Seq, sz, h.Spec.Size)
				}
				// cut when the threshold is FIRST exceeded: without the write that was appended last the
				// buffer was at or below the threshold; whichever write that was, taking away the
				// largest one must bring the chunk to the threshold or below
				perWrite := map[int]int{}
				for _, p := range a.Points {
					perWrite[owner20(h, p)] += len(p.Payload)
				}
				largest := 0
				for _, n := range perWrite {
					if n > largest {
						largest = n
					}
				}
				if len(perWrite) > 1 && uint32(sz-largest) > h.Spec.Size {
					s.Violate("C20.size-cut-late", pol, "%s: chunk seq %d holds %d bytes from %d writes, threshold %d: even without its largest write (%d bytes) the buffer already exceeded the threshold, so the cut came late", u, a.Seq, sz, len(perWrite), h.Spec.Size, largest)
				}
			}
		}
		if pol == "size" || pol == "interval-or-size" {
			oracleC20SizeModel(s, h)
		}
		if pol == "interval" || pol == "interval-or-size" || pol == "default" {
			iv := h.Spec.Interval
			if pol == "default" {
				iv = 100 * time.Millisecond
			}
			// accepted data is on the link no later than one interval (+1ms) after the write returned
			arrT := map[string]time.Duration{}
			for _, a := range arrivals {
				for _, p := range a.Points {
					arrT[ptKey(p)] = a.SentAt
				}
			}
			for _, w := range h.Writes {
				if !(w.Op.harvested && w.Op.Err == nil) {
					continue
				}
				for _, p := range w.Points {
					at, ok := arrT[ptKey(p)]
					if ok && at-w.Op.ReturnT > iv+time.Millisecond {
						s.Violate("C20.interval-exceeded", pol, "%s: point of op%d accepted at %v was written to the link at %v, interval %v", u, w.Op.ID, w.Op.ReturnT, at, iv)
					}
				}
			}
		}
	}
}

func owner20(h *upH, p pt) int {
	k := ptKey(p)
	for _, w := range h.Writes {
		for _, q := range w.Points {
			if ptKey(q) == k {
				return w.Op.ID
			}
		}
	}
	return -1
}

// oracleC20SizeModel: with one writer task and no flusher activity before the
// chunk, chunk boundaries follow the running-sum model.
func oracleC20SizeModel(s *Sim, h *upH) {
	tasks := map[int]bool{}
	for _, w := range h.Writes {
		tasks[w.Op.Task] = true
	}
	if len(tasks) != 1 || h.Spec.Policy != "size" || len(h.Flushes)+len(h.WriteFlushes) > 1 || h.Spec.Size == 0 && false {
		return // the exact model is only stated for a single writer without explicit flushes (the final barrier flush is allowed)
	}
	s.Stat("c20.size-model-applied")
	sum := 0
	var cur []pt
	var model [][]pt
	for _, w := range h.Writes {
		if !(w.Op.harvested && w.Op.Err == nil) {
			continue
		}
		if c := h.CloseOp; c != nil && w.Op.Return > c.Invoke {
			break // overlaps Close: where Close's flush cuts is not determined by the policy
		}
		for _, p := range w.Points {
			sum += len(p.Payload)
		}
		cur = append(cur, w.Points...)
		if len(w.Points) == 0 {
			// a write without points still creates a (empty) group; it cannot trigger a size cut by itself
		}
		if uint32(sum) > h.Spec.Size {
			model = append(model, cur)
			cur, sum = nil, 0
		}
	}
	var arr []*chunkArrival
	seenSeq := map[uint32]bool{}
	for _, a := range h.B.Arrivals {
		if !seenSeq[a.Seq] {
			seenSeq[a.Seq] = true
			arr = append(arr, a)
		}
	}
	sort.SliceStable(arr, func(i, j int) bool { return arr[i].Seq < arr[j].Seq })
	for i, want := range model {
		if i >= len(arr) {
			s.Violate("C20.size-model", "missing", "u%d: size policy: model cuts %d chunks before Flush/Close, broker saw %d", h.Idx, len(model), len(arr))
			return
		}
		m, e := diffMultiset(multiset(want), multiset(arr[i].Points), 2)
		if len(m) > 0 || len(e) > 0 {
			s.Violate("C20.size-model", "boundary", "u%d: size policy (threshold %d): chunk %d should hold %d points, holds %d (missing %v extra %v)", h.Idx, h.Spec.Size, i+1, len(want), len(arr[i].Points), m, e)
			return
		}
	}
}
