package dsim

import (
	"errors"
	"runtime"
	"sync"

	"github.com/aptpod/iscp-go/iscp"
	"github.com/aptpod/iscp-go/transport"
	"github.com/aptpod/iscp-go/verifhook"
	"github.com/aptpod/iscp-go/verifsync"
	"github.com/google/uuid"
)

// Process-wide seams. One run at a time per process; every seam looks up curSim.

const simTransport iscp.TransportName = "dsim"

var registerOnce sync.Once

type simDialer struct{}

func (simDialer) Dial(c transport.DialConfig) (transport.Transport, error) {
	s := curSim
	if s == nil || s.Net == nil {
		return nil, errors.New("dsim: no simulation running")
	}
	return s.Net.Dial(c)
}

// seedReader is the entropy source of google/uuid during a run.
type seedReader struct {
	mu  sync.Mutex
	rng splitmix
}

func (r *seedReader) Read(p []byte) (int, error) {
	r.mu.Lock()
	defer r.mu.Unlock()
	for i := range p {
		p[i] = byte(r.rng.next() >> 24)
	}
	return len(p), nil
}

var restoreJitter func()

func installGlobals(s *Sim) {
	registerOnce.Do(func() {
		iscp.VerifRegisterDialer(simTransport, func() transport.Dialer { return simDialer{} })
	})
	uuid.SetRand(&seedReader{rng: splitmix{s: s.T.Seed ^ 0xabcdef}})
	jr := &seedReader{rng: splitmix{s: s.T.Seed ^ 0x1f2e3d}}
	restoreJitter = verifhook.SetRetryJitter(func() float64 {
		jr.mu.Lock()
		defer jr.mu.Unlock()
		return float64(jr.rng.next()>>11) / float64(1<<53)
	})
	s.yieldSeed = s.T.Seed ^ 0x5151
	var ymu sync.Mutex
	verifsync.SetYieldHook(func(site int) {
		s.yieldTick()
		d := s.yieldDensity
		if d == 0 {
			return
		}
		ymu.Lock()
		c := s.yieldCount[site]
		s.yieldCount[site] = c + 1
		ymu.Unlock()
		x := splitmix{s: s.yieldSeed + uint64(site)*0x9e37 + uint64(c)*0x85eb}
		if int(x.next()%1000) < d {
			runtime.Gosched()
		}
	})
}

func uninstallGlobals() {
	verifsync.SetYieldHook(nil)
	if restoreJitter != nil {
		restoreJitter()
		restoreJitter = nil
	}
	uuid.SetRand(nil)
}
