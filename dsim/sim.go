package dsim

import (
	"context"

	"crypto/sha256"
	"encoding/hex"
	"encoding/json"
	"fmt"
	"github.com/aptpod/iscp-go/iscp"
	"runtime"
	"runtime/debug"
	"sort"
	"strings"
	"sync"
	"testing"
	"testing/synctest"
	"time"
)

// Violation is one oracle failure. Rule is the stable identity of the kind of
// failure ("C02.lost-point"), Locus narrows it for the known-findings file.
type Violation struct {
	Rule  string `json:"rule"`
	Locus string `json:"locus,omitempty"`
	Msg   string `json:"msg"`
}

// RunResult is what one simulated run reports to the worker.
type RunResult struct {
	Prop       string         `json:"prop"`
	Family     string         `json:"family"`
	Seed       uint64         `json:"seed"`
	Violations []Violation    `json:"violations,omitempty"`
	Stats      map[string]int `json:"stats"`
	Steps      int            `json:"steps"`
	SimTimeMs  int64          `json:"sim_ms"`
	Hash       string         `json:"hash"`
	Nontrivial bool           `json:"nontrivial"`
	Trace      []string       `json:"trace,omitempty"`
	Tape       []uint32       `json:"tape,omitempty"`
	Labels     []string       `json:"labels,omitempty"`
	Harness    string         `json:"harness_error,omitempty"`
	Leak       string         `json:"leak,omitempty"`
	Sample     any            `json:"sample,omitempty"`
	Cover      []string       `json:"cover,omitempty"`
}

// Op is one API call executed by an application task.
type Op struct {
	ID      int
	Task    int
	Name    string
	Args    string
	Run     func(ctx context.Context) (any, error)
	CtxKind string // "bg", "deadline", "cancel"
	Timeout time.Duration
	ctx     context.Context
	cancel  context.CancelFunc

	Invoke  int64
	Return  int64
	InvokeT time.Duration
	ReturnT time.Duration
	CancelT time.Duration // when the scheduler cancelled it (cancel kind), -1 otherwise
	// CancelAtYield > 0: the context is cancelled by the yield hook at the k-th yield point any
	// library goroutine passes after the operation started, i.e. at an arbitrary instant inside the
	// call instead of at a quiescence point
	CancelAtYield int
	yieldLeft     int
	yCancelled    bool
	yCancelT      time.Duration
	done          bool
	Res           any
	Err           error
	Panic         string
	Meta          any
	OnDone        func(op *Op)
	harvested     bool
}

type task struct {
	id   int
	ch   chan *Op
	busy *Op
}

// Action is one thing the scheduler may do next.
type Action struct {
	Name string
	W    int
	Do   func()
}

type Sim struct {
	T      *Tape
	Prop   string
	Family string
	Tier   string
	t      *testing.T

	mu    sync.Mutex // guards everything library goroutines touch (links, op completion, hook ledgers, log)
	seq   int64
	start time.Time
	log   []string
	trace bool

	tasks []*task
	ops   []*Op

	viol  []Violation
	stats map[string]int
	steps int

	Net    *Net
	Broker *Broker

	nontrivial bool
	harnessErr string
	sample     any

	cover []string

	Phase int  // multi-phase scenarios: index of the current bubble
	Again bool // set by the scenario to request another phase
	Carry any  // state carried across phases

	RaceMode  bool // set by the C09 wrapper: scenarios may add concurrency their own oracles do not model
	BurstMax  int  // >0: burst stepping
	burstLeft int

	memberClock int64 // order of writes accepted by scripted members (under mu)

	yieldMu      sync.Mutex
	armed        []*Op
	yieldSeed    uint64
	yieldDensity int // per 1000
	yieldCount   map[int]int
}

var curSim *Sim // the sim of the run in progress (one run at a time per process)

func (s *Sim) Now() time.Duration { return time.Since(s.start) }

func (s *Sim) nextSeq() int64 {
	s.seq++
	return s.seq
}

// Logf appends a line to the run log (root goroutine only).
func (s *Sim) Logf(format string, a ...any) {
	s.mu.Lock()
	s.log = append(s.log, fmt.Sprintf("%06d %9.3fs ", s.seq, s.Now().Seconds())+fmt.Sprintf(format, a...))
	s.mu.Unlock()
}

// AsyncLogf appends a line from a library goroutine (not part of the canonical hash).
func (s *Sim) AsyncLogf(format string, a ...any) {
	if !s.trace {
		return
	}
	s.mu.Lock()
	s.log = append(s.log, fmt.Sprintf("%06d %9.3fs ~ ", s.seq, s.Now().Seconds())+fmt.Sprintf(format, a...))
	s.mu.Unlock()
}

func (s *Sim) Stat(k string) { s.StatN(k, 1) }
func (s *Sim) StatN(k string, n int) {
	s.mu.Lock()
	s.stats[k] += n
	s.mu.Unlock()
}

// Violate records an oracle failure.
func (s *Sim) Violate(rule, locus, format string, a ...any) {
	s.mu.Lock()
	defer s.mu.Unlock()
	for _, v := range s.viol {
		if v.Rule == rule && v.Locus == locus {
			return
		}
	}
	s.viol = append(s.viol, Violation{Rule: rule, Locus: locus, Msg: fmt.Sprintf(format, a...)})
}

// HarnessError marks the run as invalid because the harness itself is inconsistent.
func (s *Sim) HarnessError(format string, a ...any) {
	s.mu.Lock()
	if s.harnessErr == "" {
		s.harnessErr = fmt.Sprintf(format, a...)
	}
	s.mu.Unlock()
}

func (s *Sim) Nontrivial() { s.nontrivial = true }

// Cover records that a point of an enumerated space was executed.
func (s *Sim) Cover(key string) { s.cover = append(s.cover, key) }

// Wait lets the library run until every goroutine is durably blocked.
func (s *Sim) Wait() { synctest.Wait() }

// Advance moves the simulated clock.
func (s *Sim) Advance(d time.Duration) {
	s.nextSeq()
	if s.trace {
		s.Logf("advance %v", d)
	}
	s.StatN("sim_advance_ms", int(d/time.Millisecond))
	time.Sleep(d)
	synctest.Wait()
	s.Harvest()
}

// NewTasks starts n application task goroutines.
func (s *Sim) NewTasks(n int) {
	for i := 0; i < n; i++ {
		t := &task{id: len(s.tasks), ch: make(chan *Op)}
		s.tasks = append(s.tasks, t)
		go func() {
			for op := range t.ch {
				s.runOp(op)
			}
		}()
	}
	synctest.Wait()
}

func (s *Sim) runOp(op *Op) {
	var res any
	var err error
	var pan string
	func() {
		defer func() {
			if r := recover(); r != nil {
				pan = fmt.Sprintf("%v\n%s", r, debug.Stack())
			}
		}()
		if op.CancelAtYield > 0 {
			s.armYieldCancel(op)
		}
		defer s.disarmYieldCancel(op)
		res, err = op.Run(op.ctx)
	}()
	s.mu.Lock()
	op.Res, op.Err, op.Panic = res, err, pan
	op.ReturnT = time.Since(s.start)
	op.done = true
	s.mu.Unlock()
}

func (s *Sim) armYieldCancel(op *Op) {
	s.yieldMu.Lock()
	op.yieldLeft = op.CancelAtYield
	s.armed = append(s.armed, op)
	s.yieldMu.Unlock()
}

// ArmYieldCancel (root goroutine) makes the yield hook cancel op's context at the k-th yield point
// from now on, e.g. right before a reply for op is delivered.
func (s *Sim) ArmYieldCancel(op *Op, k int) {
	s.yieldMu.Lock()
	op.yieldLeft = k
	s.armed = append(s.armed, op)
	s.yieldMu.Unlock()
}

func (s *Sim) disarmYieldCancel(op *Op) {
	s.yieldMu.Lock()
	for i, o := range s.armed {
		if o == op {
			s.armed = append(s.armed[:i:i], s.armed[i+1:]...)
			break
		}
	}
	s.yieldMu.Unlock()
}

// yieldTick is called by the yield hook at every yield point (any goroutine).
func (s *Sim) yieldTick() {
	s.yieldMu.Lock()
	if len(s.armed) == 0 {
		s.yieldMu.Unlock()
		return
	}
	var fire []*Op
	keep := s.armed[:0:0]
	for _, op := range s.armed {
		op.yieldLeft--
		if op.yieldLeft <= 0 {
			fire = append(fire, op)
		} else {
			keep = append(keep, op)
		}
	}
	s.armed = keep
	s.yieldMu.Unlock()
	for _, op := range fire {
		s.mu.Lock()
		op.yCancelled, op.yCancelT = true, time.Since(s.start)
		s.mu.Unlock()
		s.AsyncLogf("cancel op%d at yield point", op.ID)
		op.cancel()
	}
}

// Idle reports whether task i can take a new operation.
func (s *Sim) Idle(i int) bool { return s.tasks[i].busy == nil }

// AnyBusy reports whether any operation is still running.
func (s *Sim) AnyBusy() bool {
	for _, t := range s.tasks {
		if t.busy != nil {
			return true
		}
	}
	return false
}

func (s *Sim) Busy(i int) *Op { return s.tasks[i].busy }

// Start hands op to task i (which must be idle) and lets it run to its first block.
func (s *Sim) Start(i int, op *Op) *Op {
	t := s.tasks[i]
	if t.busy != nil {
		s.HarnessError("task %d busy", i)
		return op
	}
	op.ID = len(s.ops)
	op.Task = i
	op.Invoke = s.nextSeq()
	op.InvokeT = s.Now()
	op.CancelT = -1
	switch op.CtxKind {
	case "deadline":
		op.ctx, op.cancel = context.WithTimeout(context.Background(), op.Timeout)
	default:
		op.ctx, op.cancel = context.WithCancel(context.Background())
	}
	if op.CtxKind == "" {
		op.CtxKind = "bg"
	}
	if op.CtxKind == "expired" {
		// the caller's context has already ended when the call is made
		op.CancelT = s.Now()
		op.cancel()
	}
	s.ops = append(s.ops, op)
	t.busy = op
	s.Logf("op%d t%d %s(%s) ctx=%s", op.ID, i, op.Name, op.Args, op.ctxString())
	t.ch <- op
	return op
}

func (op *Op) ctxString() string {
	if op.CtxKind == "deadline" {
		return "deadline:" + op.Timeout.String()
	}
	return op.CtxKind
}

// CancelOp cancels the context of a running op.
func (s *Sim) CancelOp(op *Op) {
	if op.CancelT < 0 {
		op.CancelT = s.Now()
		s.nextSeq()
		s.Logf("cancel op%d", op.ID)
		op.cancel()
	}
}

// Harvest notices finished operations (call after Wait).
func (s *Sim) Harvest() {
	for _, t := range s.tasks {
		op := t.busy
		if op == nil {
			continue
		}
		s.mu.Lock()
		done := op.done
		if op.yCancelled && op.CancelT < 0 {
			op.CancelT = op.yCancelT
			s.stats["env.cancel-at-yield-point"]++
		}
		s.mu.Unlock()
		if !done {
			continue
		}
		t.busy = nil
		op.harvested = true
		op.Return = s.nextSeq()
		op.cancel()
		if op.Panic != "" {
			s.Logf("op%d PANIC %s", op.ID, firstLine(op.Panic))
			s.Violate(s.Prop+".api-panic", op.Name+":"+firstLine(op.Panic), "%s panicked: %s", op.Name, op.Panic)
		} else {
			s.Logf("op%d -> %s err=%s", op.ID, resString(op.Res), errString(op.Err))
		}
		if op.OnDone != nil {
			op.OnDone(op)
		}
	}
}

func firstLine(s string) string {
	if i := strings.IndexByte(s, '\n'); i >= 0 {
		return s[:i]
	}
	return s
}

func errString(err error) string {
	if err == nil {
		return "nil"
	}
	return firstLine(err.Error())
}

func resString(v any) string {
	switch t := v.(type) {
	case nil:
		return "-"
	case *iscp.Upstream:
		return fmt.Sprintf("up %x", t.ID[12:])
	case *iscp.Downstream:
		return fmt.Sprintf("down %x", t.ID[12:])
	case string:
		return t
	case fmt.Stringer:
		return t.String()
	}
	return fmt.Sprintf("%T", v)
}

// Step picks one enabled action from the tape and performs it, then waits for quiescence.
func (s *Sim) Step(acts []Action) bool {
	w := make([]int, len(acts))
	for i, a := range acts {
		w[i] = a.W
	}
	i := s.T.Weighted("act", w)
	if i < 0 {
		return false
	}
	s.steps++
	s.nextSeq()
	if s.trace {
		s.Logf("step %d: %s", s.steps, acts[i].Name)
	}
	acts[i].Do()
	if s.BurstMax > 0 {
		// burst stepping (C09): several actions are issued back-to-back so that the goroutines
		// serving them are not ordered by a quiescence point
		if s.burstLeft > 0 {
			s.burstLeft--
			return true
		}
		s.burstLeft = s.T.Choose("burst", s.BurstMax+1)
	}
	synctest.Wait()
	s.Harvest()
	return true
}

// Do performs a named scheduler action outside Step (settle phase).
func (s *Sim) Do(name string, f func()) {
	s.nextSeq()
	if s.trace {
		s.Logf("do: %s", name)
	}
	f()
	synctest.Wait()
	s.Harvest()
}

func (s *Sim) stopTasks() {
	for _, t := range s.tasks {
		close(t.ch)
	}
}

// ---------------------------------------------------------------------------

type scenarioFunc func(s *Sim)

var scenarios = map[string]scenarioFunc{}

// RunOpts selects how a run is executed.
type RunOpts struct {
	Prop   string
	Tier   string
	Seed   uint64
	Replay []uint32 // non-nil: replay this tape
	Trace  bool
}

// bubbleGoroutines returns the stack dump restricted to goroutines of a bubble
// that mention the library.
func libraryGoroutines() []string {
	buf := make([]byte, 1<<20)
	for {
		n := runtime.Stack(buf, true)
		if n < len(buf) {
			buf = buf[:n]
			break
		}
		buf = make([]byte, 2*len(buf))
	}
	var out []string
	for _, g := range strings.Split(string(buf), "\n\n") {
		if !strings.Contains(g, "synctest bubble") {
			continue
		}
		if !strings.Contains(g, "github.com/aptpod/iscp-go/") {
			continue
		}
		out = append(out, g)
	}
	return out
}

// RunOne executes one simulated run inside a fresh synctest bubble.
func RunOne(t *testing.T, o RunOpts) (res *RunResult) {
	fn, ok := scenarios[o.Prop]
	if !ok {
		return &RunResult{Prop: o.Prop, Seed: o.Seed, Harness: "unknown property " + o.Prop}
	}
	var tape *Tape
	if o.Replay != nil {
		tape = ReplayTape(o.Seed, o.Replay)
	} else {
		tape = NewTape(o.Seed)
	}
	tape.trace = o.Trace
	s := &Sim{T: tape, Prop: o.Prop, Tier: o.Tier, t: t, stats: map[string]int{}, trace: o.Trace, yieldCount: map[int]int{}}
	res = &RunResult{Prop: o.Prop, Seed: o.Seed}
	defer func() { s.fill(res) }()
	// A scenario may ask for further phases (s.Again): each phase runs in a fresh bubble with a
	// fresh network, broker and task set; violations, statistics, the log and s.Carry persist.
	for {
		s.Again = false
		s.runBubble(t, fn, res)
		if !s.Again || res.Harness != "" || s.harnessErr != "" {
			break
		}
		s.Phase++
		s.tasks, s.ops, s.Net, s.Broker = nil, nil, nil, nil
		s.yieldCount = map[int]int{}
	}
	return res
}

func (s *Sim) runBubble(t *testing.T, fn scenarioFunc, res *RunResult) {
	curSim = s
	installGlobals(s)
	defer func() {
		uninstallGlobals()
		curSim = nil
		if r := recover(); r != nil {
			msg := fmt.Sprint(r)
			if strings.Contains(msg, "deadlock: main bubble goroutine has exited but blocked goroutines remain") {
				res.Leak = msg
			} else {
				res.Harness = "panic outside run: " + msg + "\n" + string(debug.Stack())
			}
		}
	}()
	// synctest.Test calls t.FailNow (runtime.Goexit) when the bubble's test failed, which is what
	// the race detector causes; run it on a helper goroutine so that only that goroutine ends.
	done := make(chan any, 1)
	go func() {
		defer func() { done <- recover() }()
		synctest.Test(t, func(t *testing.T) {
			s.start = time.Now()
			defer func() {
				if r := recover(); r != nil {
					s.HarnessError("scenario panic: %v\n%s", r, debug.Stack())
				}
			}()
			fn(s)
		})
	}()
	if r := <-done; r != nil {
		panic(r)
	}
}

func (s *Sim) fill(res *RunResult) {
	s.mu.Lock()
	defer s.mu.Unlock()
	res.Family = s.Family
	res.Violations = s.viol
	res.Stats = s.stats
	res.Steps = s.steps
	res.SimTimeMs = int64(s.stats["sim_advance_ms"])
	res.Nontrivial = s.nontrivial
	res.Harness = firstNonEmpty(res.Harness, s.harnessErr)
	res.Tape = s.T.Rec
	res.Sample = s.sample
	res.Cover = s.cover
	h := sha256.New()
	for _, l := range s.log {
		if strings.Contains(l, " ~ ") {
			continue
		}
		h.Write([]byte(l))
		h.Write([]byte{'\n'})
	}
	if s.sample != nil {
		// scenarios that are not driven through Step describe the case they executed in the sample
		if b, err := json.Marshal(s.sample); err == nil {
			h.Write(b)
		}
	}
	res.Hash = hex.EncodeToString(h.Sum(nil))[:16]
	if s.trace {
		res.Trace = s.log
		res.Labels = s.T.Labels
	}
}

func firstNonEmpty(a, b string) string {
	if a != "" {
		return a
	}
	return b
}

func sortedKeys[V any](m map[string]V) []string {
	ks := make([]string, 0, len(m))
	for k := range m {
		ks = append(ks, k)
	}
	sort.Strings(ks)
	return ks
}
