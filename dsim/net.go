package dsim

import (
	"bytes"
	"errors"
	"fmt"
	"io"
	"runtime/debug"
	"strings"
	"sync"
	"time"

	"github.com/aptpod/iscp-go/encoding"
	encjson "github.com/aptpod/iscp-go/encoding/json"
	"github.com/aptpod/iscp-go/encoding/protobuf"
	"github.com/aptpod/iscp-go/message"
	"github.com/aptpod/iscp-go/transport"
)

// Net is the simulated network: it hands out in-memory links on Dial and moves
// frames only when the scheduler says so.
type Net struct {
	s               *Sim
	Links           []*Link
	DialFail        int  // the next DialFail dials return an error
	NoDial          bool // teardown: every dial fails
	Dials           int
	Unrel           bool // links offer an unreliable (datagram) side channel
	Inline          bool // zero-latency network: the broker answers inside Write
	OnLost          func(l *Link, dir string, m message.Message)
	OnDial          func(l *Link)
	DialTimes       []time.Duration
	InlineHandshake bool // only the connect handshake of new links is zero-latency
	HandshakeCut    int  // the next n links die when the broker receives their ConnectRequest
	Window          int  // >0: back-pressure: a Write blocks while that many client frames wait for the broker
	inlineMu        sync.Mutex
}

var errDialRefused = errors.New("dsim: dial refused")

// errTransientWrite: one write is refused (e.g. a send timeout), the connection stays usable.
var errTransientWrite = errors.New("dsim: transient write error")

// LateErrorNextWrites makes the next n client writes report an error although the frame is delivered.
func (l *Link) LateErrorNextWrites(n int) {
	l.net.s.mu.Lock()
	l.lateErrors += n
	l.net.s.mu.Unlock()
}

// ParkedWriters reports how many writes are parked in the link right now.
func (l *Link) ParkedWriters() int {
	l.net.s.mu.Lock()
	defer l.net.s.mu.Unlock()
	return l.parked
}

// FailNextWrites makes the next n client writes fail while the link stays up.
func (l *Link) FailNextWrites(n int) {
	l.net.s.mu.Lock()
	l.failWrites += n
	l.net.s.mu.Unlock()
}

// Link is one transport incarnation. It carries encoded frames (it sits below
// encoding.Transport) and implements transport.Transport + transport.Closer.
type cframe struct {
	b  []byte
	at time.Duration
}

type Link struct {
	net *Net
	ID  int
	cfg transport.DialConfig
	enc encoding.Encoding

	c2b    []cframe          // written by the client, not yet seen by the broker
	b2c    [][]byte          // produced by the broker, not yet delivered to the client
	b2cMsg []message.Message // parallel to b2c: the decoded form (nil for raw frames)

	rx     chan []byte
	dead   chan struct{} // closed when the link is cut / closed by the peer
	closed chan struct{} // closed when the client closes the link

	isDead       bool
	deadReadErr  error
	deadWriteErr error
	clientClosed bool
	blackhole    bool          // peer silently gone: writes succeed, nothing is delivered
	stalled      bool          // slow link: Write blocks until the scheduler resumes it
	failWrites   int           // the next n writes fail with a transient error (the link stays up)
	parked       int           // writers currently parked in Write
	lateErrors   int           // the next n writes are delivered but report an error
	room         chan struct{} // closed when a blocked Write may try again
	dieOnConnect bool          // handshake-cut fault

	// keepalive latency model (C15): pings are answered by a bubble timer after pongDelay,
	// exactly, whatever the scheduler's step size; no pong is sent at or after pongSilentAt
	pongModel    bool
	pongDelay    time.Duration
	pongSilentAt time.Duration // <0: never silent
	stopReading  bool          // the silent peer also stops reading: after the first ping it leaves unanswered, writes block
	stopReadingFirst bool      // ... or from the moment it falls silent: the next ping is not even taken
	PingLog      []pingRec     // pings written by the client (id, time)
	PongLog      []pingRec     // pongs written by the client (for broker pings)

	AckDeliveredAt map[[2]uint32]int64 // (stream alias, sequence number) -> scheduler seq of delivery

	txBytes, rxBytes uint64
	txFrames         int

	unrel *unrelSide

	// broker-side connection state
	bc *bConn
}

func newNet(s *Sim) *Net { return &Net{s: s} }

// Dial implements transport.Dialer (called by library goroutines).
func (n *Net) Dial(cfg transport.DialConfig) (transport.Transport, error) {
	s := n.s
	s.mu.Lock()
	defer s.mu.Unlock()
	n.Dials++
	if n.NoDial {
		return nil, errDialRefused
	}
	if n.DialFail > 0 {
		n.DialFail--
		s.stats["fault.dial-fail"]++
		return nil, errDialRefused
	}
	l := &Link{
		net:    n,
		ID:     len(n.Links),
		cfg:    cfg,
		rx:     make(chan []byte, 1<<14),
		dead:   make(chan struct{}),
		closed: make(chan struct{}),
	}
	switch cfg.EncodingName {
	case transport.EncodingNameJSON:
		l.enc = encjson.NewEncoding()
	default:
		l.enc = protobuf.NewEncoding()
	}
	if n.Unrel {
		l.unrel = &unrelSide{l: l, rx: make(chan []byte, 1<<14)}
	}
	if n.HandshakeCut > 0 {
		n.HandshakeCut--
		l.dieOnConnect = true
	}
	n.Links = append(n.Links, l)
	n.DialTimes = append(n.DialTimes, s.Now())
	if n.OnDial != nil {
		n.OnDial(l)
	}
	return l, nil
}

func (l *Link) Read() ([]byte, error) {
	select {
	case b := <-l.rx:
		return b, nil
	default:
	}
	select {
	case b := <-l.rx:
		return b, nil
	case <-l.dead:
		select {
		case b := <-l.rx:
			return b, nil
		default:
		}
		return nil, l.deadReadErr
	case <-l.closed:
		return nil, transport.ErrAlreadyClosed
	}
}

func (l *Link) Write(b []byte) error {
	s := l.net.s
	s.mu.Lock()
	if l.clientClosed {
		s.mu.Unlock()
		return transport.ErrAlreadyClosed
	}
	if l.isDead {
		s.mu.Unlock()
		return l.deadWriteErr
	}
	if l.pongModel && l.stopReadingFirst && !l.stalled && l.pongSilentAt >= 0 && s.Now() >= l.pongSilentAt {
		// the peer stops reading at the moment it falls silent: from then on nothing is taken any more,
		// not even the next keepalive ping
		l.stalled = true
		s.stats["fault.peer-stops-reading"]++
	}
	// back-pressure / slow link: the write is parked (durably) until the scheduler makes room
	for l.stalled || (l.net.Window > 0 && len(l.c2b) >= l.net.Window && !l.blackhole) {
		if l.room == nil {
			l.room = make(chan struct{})
		}
		ch := l.room
		s.stats["env.write-blocked-by-backpressure"]++
		l.parked++
		s.mu.Unlock()
		select {
		case <-ch:
		case <-l.dead:
		case <-l.closed:
		}
		s.mu.Lock()
		l.parked--
		if l.clientClosed {
			s.mu.Unlock()
			return transport.ErrAlreadyClosed
		}
		if l.isDead {
			s.mu.Unlock()
			return l.deadWriteErr
		}
	}
	if l.failWrites > 0 {
		l.failWrites--
		s.stats["fault.transient-write-error"]++
		s.mu.Unlock()
		return errTransientWrite
	}
	l.txBytes += uint64(len(b))
	l.txFrames++
	if l.blackhole {
		if l.net.OnLost != nil {
			if m, err := l.decode(b); err == nil {
				l.net.OnLost(l, "c2b", m)
			}
		}
		s.mu.Unlock()
		return nil
	}
	if l.pongModel {
		if m, err := l.decode(b); err == nil {
			switch x := m.(type) {
			case *message.Ping:
				now := s.Now()
				l.PingLog = append(l.PingLog, pingRec{uint32(x.RequestID), now})
				if l.pongSilentAt < 0 || now+l.pongDelay < l.pongSilentAt {
					pong, _ := l.encode(&message.Pong{RequestID: x.RequestID})
					time.AfterFunc(l.pongDelay, func() {
						s.mu.Lock()
						ok := !l.isDead && !l.clientClosed
						s.mu.Unlock()
						if ok {
							select {
							case l.rx <- pong:
							default:
							}
						}
					})
				} else if l.stopReading && !l.stalled {
					l.stalled = true
					s.stats["fault.peer-stops-reading"]++
				}
				s.mu.Unlock()
				return nil
			case *message.Pong:
				l.PongLog = append(l.PongLog, pingRec{uint32(x.RequestID), s.Now()})
				s.mu.Unlock()
				return nil
			}
		}
	}
	l.c2b = append(l.c2b, cframe{append([]byte(nil), b...), s.Now()})
	if l.lateErrors > 0 {
		// the frame has gone out, but the write reports an error (e.g. a deadline that fired while the
		// last bytes were being flushed); the link stays up
		l.lateErrors--
		s.stats["fault.write-error-after-delivery"]++
		s.mu.Unlock()
		return errTransientWrite
	}
	inline := l.net.Inline || (l.net.InlineHandshake && (l.bc == nil || !l.bc.Connected))
	s.mu.Unlock()
	if inline {
		// zero-latency network: the broker sees the frame and answers before Write returns
		l.net.inlineMu.Lock()
		l.IngestAll()
		s.Broker.ReleaseAll()
		l.DeliverAll()
		l.net.inlineMu.Unlock()
	}
	return nil
}

// wakeWriters lets parked Writes re-check (s.mu held).
func (l *Link) wakeWriters() {
	if l.room != nil {
		close(l.room)
		l.room = nil
	}
}

// StallWrites / ResumeWrites model a link that does not take data for a while.
func (l *Link) StallWrites() {
	l.net.s.mu.Lock()
	l.stalled = true
	l.net.s.mu.Unlock()
}

func (l *Link) ResumeWrites() {
	l.net.s.mu.Lock()
	l.stalled = false
	l.wakeWriters()
	l.net.s.mu.Unlock()
}

func (l *Link) Close() error { return l.CloseWithStatus(transport.CloseStatusNormal) }

func (l *Link) CloseWithStatus(transport.CloseStatus) error {
	s := l.net.s
	s.mu.Lock()
	defer s.mu.Unlock()
	if !l.clientClosed {
		l.clientClosed = true
		close(l.closed)
		if l.unrel != nil {
			l.unrel.closeLocked()
		}
	}
	return nil
}

func (l *Link) RxBytesCounterValue() uint64 { return l.rxBytes }
func (l *Link) TxBytesCounterValue() uint64 { return l.txBytes }
func (l *Link) Name() transport.Name        { return "dsim" }
func (l *Link) NegotiationParams() transport.NegotiationParams {
	return l.cfg.NegotiationParams()
}

func (l *Link) AsUnreliable() (transport.UnreliableTransport, bool) {
	if l.unrel == nil {
		return nil, false
	}
	return l.unrel, true
}

// Alive reports whether frames can still flow.
func (l *Link) Alive() bool {
	l.net.s.mu.Lock()
	defer l.net.s.mu.Unlock()
	return !l.isDead && !l.clientClosed
}

func (l *Link) decode(b []byte) (m message.Message, err error) {
	if s := l.net.s; s.Prop == "C12" {
		// the decoders must answer arbitrary bytes with an error or a message, never with a panic
		defer func() {
			if r := recover(); r != nil {
				st := string(debug.Stack())
				where := "decoder"
				for _, ln := range strings.Split(st, "\n") {
					if strings.HasPrefix(ln, "github.com/aptpod/iscp-go/encoding") {
						where = strings.TrimSpace(strings.SplitN(ln, "(", 2)[0])
						break
					}
				}
				s.Violate("C12.decoder-panics", where, "DecodeFrom panicked on a %d-byte frame (%x...): %v", len(b), b[:min(len(b), 24)], r)
				m, err = nil, fmt.Errorf("decoder panicked: %v", r)
			}
		}()
	}
	_, m, err = l.enc.DecodeFrom(bytes.NewReader(b))
	return m, err
}

func (l *Link) encode(m message.Message) ([]byte, error) {
	var buf bytes.Buffer
	if _, err := l.enc.EncodeTo(&buf, m); err != nil {
		return nil, err
	}
	return buf.Bytes(), nil
}

// --- scheduler-side operations (root goroutine) ---

// PendingC2B / PendingB2C report queue lengths.
func (l *Link) PendingC2B() int {
	l.net.s.mu.Lock()
	defer l.net.s.mu.Unlock()
	return len(l.c2b)
}
func (l *Link) PendingB2C() int { return len(l.b2c) }

// IngestOne lets the broker see the oldest client frame.
func (l *Link) IngestOne() bool {
	s := l.net.s
	s.mu.Lock()
	if len(l.c2b) == 0 {
		s.mu.Unlock()
		return false
	}
	f := l.c2b[0]
	l.c2b = l.c2b[1:]
	l.wakeWriters()
	s.mu.Unlock()
	s.Broker.curSentAt = f.at
	m, err := l.decode(f.b)
	if _, isConnect := m.(*message.ConnectRequest); isConnect && l.dieOnConnect && err == nil {
		s.Stat("fault.handshake-cut")
		s.Broker.noteConnectAttempt(l, m.(*message.ConnectRequest))
		l.Kill(errClosed, errClosed)
		return true
	}
	if err != nil {
		if s.Prop == "C12" {
			// the frame was produced by the library's encoder and is read by the library's decoder (the
			// harness only carries the bytes and never alters this direction): a message the library
			// produced does not decode back
			s.Violate("C12.client-frame-not-decodable", "", "a frame written by the client (%d bytes) cannot be decoded by the library's own decoder: %v", len(f.b), err)
			return true
		}
		s.HarnessError("broker cannot decode client frame on link %d: %v", l.ID, err)
		return true
	}
	s.Broker.Handle(l, m)
	return true
}

// IngestAll lets the broker see every queued client frame.
func (l *Link) IngestAll() int {
	n := 0
	for l.IngestOne() {
		n++
	}
	return n
}

// push queues a broker frame for delivery.
func (l *Link) push(m message.Message) {
	if !l.Alive() {
		l.net.s.Stat("broker.frames-to-dead-link")
		return
	}
	b, err := l.encode(m)
	if err != nil {
		l.net.s.HarnessError("broker cannot encode %T: %v", m, err)
		return
	}
	l.b2c = append(l.b2c, b)
	l.b2cMsg = append(l.b2cMsg, m)
}

// pushRaw queues raw bytes (corruption faults).
func (l *Link) pushRaw(b []byte) {
	if l.Alive() {
		l.b2c = append(l.b2c, b)
		l.b2cMsg = append(l.b2cMsg, nil)
	}
}

// DeliverOne hands the oldest broker frame to the client's Read.
func (l *Link) DeliverOne() bool {
	if len(l.b2c) == 0 || !l.Alive() {
		return false
	}
	b := l.b2c[0]
	if ack, ok := l.b2cMsg[0].(*message.UpstreamChunkAck); ok && ack != nil {
		// when each upstream result was handed to the client (scheduler sequence number)
		if l.AckDeliveredAt == nil {
			l.AckDeliveredAt = map[[2]uint32]int64{}
		}
		for _, r := range ack.Results {
			k := [2]uint32{ack.StreamIDAlias, r.SequenceNumber}
			if _, dup := l.AckDeliveredAt[k]; !dup {
				l.AckDeliveredAt[k] = l.net.s.seq
			}
		}
	}
	viaUnrel := false
	if ch, ok := l.b2cMsg[0].(*message.DownstreamChunk); ok && ch != nil && l.unrel != nil {
		// chunks of a downstream of unreliable QoS travel on the datagram side when the connection has one
		if d := l.net.s.Broker.downByAlias(l, ch.StreamIDAlias); d != nil && d.QoS == message.QoSUnreliable {
			viaUnrel = true
		}
	}
	l.b2c = l.b2c[1:]
	l.b2cMsg = l.b2cMsg[1:]
	l.rxBytes += uint64(len(b))
	if viaUnrel {
		l.unrel.rxb += uint64(len(b))
		select {
		case l.unrel.rx <- b:
		default:
			l.net.s.HarnessError("link %d datagram rx overflow", l.ID)
		}
		return true
	}
	select {
	case l.rx <- b:
	default:
		l.net.s.HarnessError("link %d rx overflow", l.ID)
	}
	return true
}

func (l *Link) DeliverAll() int {
	n := 0
	for l.DeliverOne() {
		n++
	}
	return n
}

// Kill makes the link fail from now on. Frames still queued are lost.
func (l *Link) Kill(readErr, writeErr error) {
	s := l.net.s
	s.mu.Lock()
	if l.isDead {
		s.mu.Unlock()
		return
	}
	l.isDead = true
	l.deadReadErr = readErr
	l.deadWriteErr = writeErr
	lostC := l.c2b
	l.c2b = nil
	close(l.dead)
	if l.unrel != nil {
		l.unrel.closeLocked()
	}
	s.mu.Unlock()
	s.StatN("net.frames-lost-c2b", len(lostC))
	s.StatN("net.frames-lost-b2c", len(l.b2c))
	if l.net.OnLost != nil {
		for _, f := range lostC {
			if m, err := l.decode(f.b); err == nil {
				l.net.OnLost(l, "c2b", m)
			}
		}
		for _, b := range l.b2c {
			if m, err := l.decode(b); err == nil {
				l.net.OnLost(l, "b2c", m)
			}
		}
		for _, p := range s.Broker.Pend {
			if p.Link == l && p.Msg != nil {
				l.net.OnLost(l, "b2c", p.Msg)
			}
		}
	}
	l.b2c = nil
	l.b2cMsg = nil
	s.Broker.LinkDown(l)
}

// Blackhole makes the peer silently disappear: writes still succeed.
func (l *Link) Blackhole() {
	s := l.net.s
	s.mu.Lock()
	l.blackhole = true
	lostC := l.c2b
	l.c2b = nil
	s.mu.Unlock()
	if l.net.OnLost != nil {
		for _, f := range lostC {
			if m, err := l.decode(f.b); err == nil {
				l.net.OnLost(l, "c2b", m)
			}
		}
		for _, b := range l.b2c {
			if m, err := l.decode(b); err == nil {
				l.net.OnLost(l, "b2c", m)
			}
		}
		for _, p := range s.Broker.Pend {
			if p.Link == l && p.Msg != nil {
				l.net.OnLost(l, "b2c", p.Msg)
			}
		}
	}
	l.b2c = nil
	l.b2cMsg = nil
	s.Broker.LinkDown(l)
}

func (l *Link) String() string { return fmt.Sprintf("L%d", l.ID) }

var _ transport.Transport = (*Link)(nil)
var _ transport.Closer = (*Link)(nil)

// unrelSide is the datagram side channel of a link. Frames written to it join the link's client->broker
// queue (datagrams that happen to arrive, in order: a legal network); the broker's chunks for downstreams
// of unreliable QoS are handed to its reader. It can be stalled on its own (a full datagram send queue)
// while the reliable side keeps working.
type unrelSide struct {
	l       *Link
	rx      chan []byte
	closed  bool
	done    chan struct{}
	stalled bool
	room    chan struct{}
	parked  int
	tx, rxb uint64
}

func (u *unrelSide) init() {
	if u.done == nil {
		u.done = make(chan struct{})
	}
}

func (u *unrelSide) closeLocked() {
	u.init()
	if !u.closed {
		u.closed = true
		close(u.done)
	}
}

func (u *unrelSide) Read() ([]byte, error) {
	u.l.net.s.mu.Lock()
	u.init()
	u.l.net.s.mu.Unlock()
	select {
	case b := <-u.rx:
		return b, nil
	case <-u.done:
		return nil, transport.ErrAlreadyClosed
	}
}

func (u *unrelSide) Write(b []byte) error {
	s := u.l.net.s
	s.mu.Lock()
	u.init()
	for u.stalled && !(u.closed || u.l.isDead || u.l.clientClosed) {
		if u.room == nil {
			u.room = make(chan struct{})
		}
		ch := u.room
		u.parked++
		s.stats["env.datagram-write-blocked"]++
		s.mu.Unlock()
		select {
		case <-ch:
		case <-u.done:
		case <-u.l.dead:
		case <-u.l.closed:
		}
		s.mu.Lock()
		u.parked--
	}
	defer s.mu.Unlock()
	if u.closed || u.l.isDead || u.l.clientClosed {
		return transport.ErrAlreadyClosed
	}
	u.tx += uint64(len(b))
	u.l.c2b = append(u.l.c2b, cframe{b: append([]byte(nil), b...), at: s.Now()})
	s.stats["env.frames-on-the-unreliable-side"]++
	return nil
}
func (u *unrelSide) Close() error                { return nil }
func (u *unrelSide) RxBytesCounterValue() uint64 { return u.rxb }
func (u *unrelSide) TxBytesCounterValue() uint64 { return u.tx }
func (u *unrelSide) IsUnreliable()               {}

// pushUnreliable hands a broker message to the reader of the datagram side (whatever its type).
func (l *Link) pushUnreliable(m message.Message) bool {
	if l.unrel == nil || !l.Alive() {
		return false
	}
	b, err := l.encode(m)
	if err != nil {
		return false
	}
	select {
	case l.unrel.rx <- b:
		return true
	default:
		return false
	}
}

// StallUnreliable / ResumeUnreliable: the datagram side does not take data for a while.
func (l *Link) StallUnreliable() {
	if l.unrel == nil {
		return
	}
	l.net.s.mu.Lock()
	l.unrel.stalled = true
	l.net.s.mu.Unlock()
}

func (l *Link) ResumeUnreliable() {
	if l.unrel == nil {
		return
	}
	l.net.s.mu.Lock()
	l.unrel.stalled = false
	if l.unrel.room != nil {
		close(l.unrel.room)
		l.unrel.room = nil
	}
	l.net.s.mu.Unlock()
}

// UnreliableParked: datagram writes currently blocked.
func (l *Link) UnreliableParked() int {
	if l.unrel == nil {
		return 0
	}
	l.net.s.mu.Lock()
	defer l.net.s.mu.Unlock()
	return l.unrel.parked
}

var _ = io.EOF

// PendingB2Cchunks counts undelivered downstream chunks for a stream alias.
func (l *Link) PendingB2Cchunks(alias uint32) int {
	if len(l.b2cMsg) == 0 {
		return 0
	}
	n := 0
	for _, m := range l.b2cMsg {
		if c, ok := m.(*message.DownstreamChunk); ok && c.StreamIDAlias == alias {
			n++
		}
	}
	return n
}
