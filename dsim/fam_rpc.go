package dsim

import (
	"fmt"
	"strings"
	"time"

	iscperrors "github.com/aptpod/iscp-go/errors"
	"github.com/aptpod/iscp-go/iscp"
	"github.com/aptpod/iscp-go/message"
)

// Request/response correlation (C06) and end-to-end calls (C16): many callers
// with requests in flight while the broker answers in any order.

func init() {
	scenarios["C06"] = runC06
	scenarios["C16"] = runC16
}

type rpcRec struct {
	Op     *Op
	Kind   string // open-up, open-down, meta, close-up
	Marker string
	Fail   bool // the broker answers this one with a failure code
	Up     *upH
	Down   *downH
}

func runC06(s *Sim) {
	t := s.T
	s.Family = "rpc-correlation"
	bc := BrokerCfg{AutoReq: false, AutoAck: true, AutoPong: true, AutoCallAck: true, AutoAckComplete: true}
	y := newSys(s, bc)
	if t.Bool("json", 1, 4) {
		y.Enc = iscp.EncodingNameJSON
	}
	y.PingInterval = Pick(t, "ping-iv", 10*time.Second, time.Second, 2*time.Second)
	y.PingTimeout = Pick(t, "ping-to", 5*time.Second, 2*time.Second)
	nTasks := Pick(t, "ntasks", 3, 2, 4, 6)
	maxSteps := Pick(t, "steps", 50, 20, 100)
	if s.Tier == "thorough" {
		maxSteps *= 3
	}
	s.yieldDensity = Pick(t, "yield", 0, 0, 20, 200)
	spurious := t.Bool("spurious", 1, 2)
	slowLink := t.Bool("slow-link", 1, 3)
	s.NewTasks(nTasks)
	s.Start(0, y.connectOp())
	s.Wait()
	y.Pump()
	if y.ConnOp = s.ops[0]; !y.ConnOp.harvested || y.ConnOp.Err != nil {
		s.HarnessError("connect did not succeed: %v", y.ConnOp.Err)
		return
	}
	var recs []*rpcRec
	n := 0
	var answered []message.Message // responses already emitted (for duplicates)
	s.Broker.OnEmit = func(m message.Message) { answered = append(answered, m) }
	resumeAll := func() {
		for _, l := range y.aliveLinks() {
			s.mu.Lock()
			st := l.stalled
			s.mu.Unlock()
			if st {
				l.ResumeWrites()
			}
		}
		s.Wait()
		s.Harvest()
	}
	for step := 0; step < maxSteps; step++ {
		var acts []Action
		for ti := 0; ti < nTasks; ti++ {
			ti := ti
			if !s.Idle(ti) {
				op := s.Busy(ti)
				if op.CtxKind == "cancel" && op.CancelT < 0 {
					acts = append(acts, Action{Name: fmt.Sprintf("cancel op%d", op.ID), W: 2, Do: func() { s.CancelOp(op) }})
				}
				continue
			}
			acts = append(acts, Action{Name: fmt.Sprintf("request t%d", ti), W: 8, Do: func() {
				n++
				rec := &rpcRec{}
				var op *Op
				var closable []*upH
				for _, h := range y.Ups {
					if h.U != nil && h.CloseOp == nil {
						closable = append(closable, h)
					}
				}
				k := t.Choose("req-kind", 4)
				if k == 3 && len(closable) == 0 {
					k = 0
				}
				switch k {
				case 0:
					rec.Kind, rec.Marker = "open-up", fmt.Sprintf("sess-m%d", n)
					op = y.openUpOp(upSpec{QoS: message.QoSReliable, Policy: "none", Session: rec.Marker})
					rec.Up = op.Meta.(*upH)
				case 1:
					rec.Kind, rec.Marker = "open-down", fmt.Sprintf("src-m%d", n)
					op = y.openDownOp(downSpec{QoS: message.QoSReliable, Sources: []string{rec.Marker}})
					rec.Down = op.Meta.(*downH)
				case 2:
					rec.Kind, rec.Marker = "meta", fmt.Sprintf("bt-m%d", n)
					if t.Bool("meta-fail", 1, 3) {
						rec.Marker = "!" + rec.Marker
						rec.Fail = true
					}
					op = y.sendMetaOp(rec.Marker)
				default:
					h := closable[t.Choose("close-which", len(closable))]
					rec.Kind, rec.Marker, rec.Up = "close-up", h.Spec.Session, h
					op = y.closeUpOp(h)
				}
				rec.Op = op
				op.Meta = rec
				switch t.Choose("ctx", 7) {
				case 0:
					op.CtxKind = "cancel"
				case 1:
					op.CtxKind, op.Timeout = "deadline", Pick(t, "to", 100*time.Millisecond, time.Second, 3*time.Second)
				case 2:
					// the caller gives up at an arbitrary instant, e.g. while its response is being dispatched
					op.CtxKind = "cancel"
					op.CancelAtYield = 1 + t.Choose("cancel-yield-k", 80)
				}
				recs = append(recs, rec)
				s.Start(ti, op)
			}})
		}
		for _, l := range y.aliveLinks() {
			l := l
			if l.PendingC2B() > 0 {
				acts = append(acts, Action{Name: "ingest " + l.String(), W: 6, Do: func() { l.IngestOne() }})
			}
			if l.PendingB2C() > 0 {
				acts = append(acts, Action{Name: "deliver " + l.String(), W: 6, Do: func() { l.DeliverOne() }})
			}
		}
		if len(s.Broker.Pend) > 0 {
			acts = append(acts, Action{Name: "release", W: 8, Do: func() { y.releaseOne() }})
		}
		if slowLink {
			// the link stops taking writes for a while (requests pile up inside Write); when it
			// resumes, the write that was parked may be refused with a transient error while the
			// connection stays usable
			for _, l := range y.aliveLinks() {
				l := l
				s.mu.Lock()
				st := l.stalled
				s.mu.Unlock()
				if !st {
					acts = append(acts, Action{Name: "stall-writes " + l.String(), W: 1, Do: func() { l.StallWrites(); s.Stat("env.link-stalled") }})
				} else {
					if l.ParkedWriters() > 0 {
						// while one request's write is held up in the link, the answer to another request
						// arrives: its caller gets it at once (nothing it needs depends on the parked write)
						acts = append(acts, Action{Name: "answer-while-a-write-is-parked " + l.String(), W: 4, Do: func() {
							for _, p := range append([]*pend(nil), s.Broker.Pend...) {
								if p.Link != l || p.Kind != "resp" || !strings.HasPrefix(p.Desc, "metadata-ack ") {
									continue
								}
								marker := strings.TrimPrefix(p.Desc, "metadata-ack meta:")
								for _, rec := range recs {
									if rec.Kind != "meta" || rec.Marker != marker || rec.Op == nil || rec.Op.harvested || rec.Op.CancelT >= 0 || rec.Op.CtxKind == "expired" {
										continue
									}
									s.Broker.Release(p, nil)
									l.DeliverAll()
									s.Wait()
									s.Harvest()
									s.Stat("env.response-delivered-while-another-write-is-parked")
									if !rec.Op.harvested {
										s.Violate("C06.caller-stuck", "response-while-another-write-is-parked", "SendMetadata(%s): its response was delivered while another request's write was held up in the link; the caller is still waiting (no clock advance needed)", marker)
									}
									return
								}
							}
						}})
					}
					acts = append(acts, Action{Name: "resume-writes " + l.String(), W: 3, Do: func() {
						if l.ParkedWriters() > 0 && t.Bool("fail-parked-write", 1, 2) {
							l.FailNextWrites(1) // the parked request is refused, not some later keepalive ping
						}
						l.ResumeWrites()
					}})
				}
			}
		}
		if spurious {
			l := y.aliveLinks()[0]
			acts = append(acts, Action{Name: "spurious-unknown-id", W: 1, Do: func() {
				id := message.RequestID(900000 + 2*uint32(step))
				var m message.Message
				switch t.Choose("sp-kind", 4) {
				case 0:
					m = &message.UpstreamOpenResponse{RequestID: id, AssignedStreamID: mkUUID(0xBA, step), AssignedStreamIDAlias: 9999, ResultCode: message.ResultCodeSucceeded, DataIDAliases: map[uint32]*message.DataID{}}
				case 1:
					m = &message.UpstreamMetadataAck{RequestID: id, ResultCode: message.ResultCodeSucceeded}
				case 2:
					m = &message.Pong{RequestID: id}
				default:
					m = &message.DownstreamOpenResponse{RequestID: id, AssignedStreamID: mkUUID(0xBA, step), ResultCode: message.ResultCodeSucceeded}
				}
				l.push(m)
				s.Stat("env.spurious-response-unknown-id")
			}})
			if len(answered) > 0 {
				acts = append(acts, Action{Name: "spurious-duplicate", W: 1, Do: func() {
					l.push(answered[t.Choose("dup-which", len(answered))])
					s.Stat("env.duplicate-response")
				}})
			}
		}
		acts = append(acts, Action{Name: "advance", W: 3, Do: func() {
			resumeAll() // no time passes while a link is stalled (keepalive is not the subject here)
			y.Advance(Pick(t, "adv", time.Millisecond, 50*time.Millisecond, 500*time.Millisecond, 2*time.Second))
		}})
		s.Step(acts)
	}
	resumeAll()
	// settle: answer everything, in tape order
	for i := 0; i < 400 && (len(s.Broker.Pend) > 0 || s.AnyBusy()); i++ {
		y.flushLinks()
		if len(s.Broker.Pend) > 0 {
			y.releaseOne()
		} else {
			y.Advance(500 * time.Millisecond)
		}
	}
	y.Pump()
	for _, tk := range s.tasks {
		if tk.busy != nil {
			s.Violate("C06.caller-stuck", tk.busy.Name, "%s(%s) ctx=%s has not returned although the broker has answered every request it received", tk.busy.Name, tk.busy.Args, tk.busy.ctxString())
		}
	}
	// oracle
	b := s.Broker
	for _, c := range b.Conns {
		seen := map[uint32]bool{}
		for _, id := range c.ReqIDs {
			if id%2 != 0 {
				s.Violate("C06.request-id-parity", "", "client request id %d is odd", id)
			}
			if seen[id] {
				s.Violate("C06.request-id-reused", "", "request id %d used twice on one connection", id)
			}
			seen[id] = true
		}
	}
	for _, r := range recs {
		op := r.Op
		if !op.harvested {
			continue
		}
		cls := errClass(op.Err)
		if op.Err != nil && strings.Contains(op.Err.Error(), errTransientWrite.Error()) {
			continue // its request was refused by the link: the caller was told, nothing else to demand
		}
		if op.CtxKind == "cancel" && op.CancelT >= 0 && cls != "nil" && cls != "ctx-canceled" && !(r.Fail && cls == "iscp") {
			s.Violate("C06.cancelled-caller-error", r.Kind, "%s(%s) was cancelled and returned %q (neither its own response nor its context error)", op.Name, op.Args, errString(op.Err))
		}
		if op.CtxKind == "bg" && cls != "nil" && !(r.Fail && cls == "iscp") {
			s.Violate("C06.caller-error", r.Kind+":"+cls, "%s(%s) with background context returned %q although the broker answered its request", op.Name, op.Args, errString(op.Err))
		}
		if cls != "nil" {
			if r.Fail && cls == "iscp" {
				continue
			}
			continue
		}
		switch r.Kind {
		case "open-up":
			var want *bUp
			for _, u := range b.Ups {
				if u.Open.SessionID == r.Marker {
					want = u
				}
			}
			if want == nil || r.Up.U == nil || r.Up.U.ID != want.ID {
				s.Violate("C06.wrong-response", "open-up", "OpenUpstream(%s) returned stream %v; the broker created %v for that request", r.Marker, r.Up.U.ID, idOrNil(want))
			}
		case "open-down":
			var want *bDown
			for _, d := range b.Downs {
				if len(d.Open.DownstreamFilters) == 1 && d.Open.DownstreamFilters[0].SourceNodeID == r.Marker {
					want = d
				}
			}
			if want == nil || r.Down.D == nil || r.Down.D.ID != want.ID {
				s.Violate("C06.wrong-response", "open-down", "OpenDownstream(%s) returned a stream the broker did not create for that request", r.Marker)
			}
		case "meta":
			if r.Fail {
				s.Violate("C06.wrong-response", "meta", "SendMetadata(%s) returned nil, the broker answered that request with a failure code", r.Marker)
			}
		}
	}
	for _, r := range recs {
		if r.Kind == "meta" && !r.Fail && r.Op.harvested && errClass(r.Op.Err) == "iscp" {
			s.Violate("C06.wrong-response", "meta-fail", "SendMetadata(%s) failed with %q, the broker answered that request with success", r.Marker, errString(r.Op.Err))
		}
	}
	s.Nontrivial()
	s.sample = map[string]any{"requests": len(recs), "tasks": nTasks, "spurious": spurious}
	cop := y.closeConnOp()
	if s.Idle(0) {
		s.Start(0, cop)
		s.Wait()
		y.PumpUntil(func() bool { return cop.harvested }, time.Second, 30*time.Second)
	}
	y.teardown()
}

func idOrNil(u *bUp) any {
	if u == nil {
		return nil
	}
	return u.ID
}

// ---------------------------------------------------------------------------

func runC16(s *Sim) {
	t := s.T
	s.Family = "e2e-calls"
	bc := BrokerCfg{AutoReq: true, AutoAck: true, AutoPong: true, AutoCallAck: false, AutoAckComplete: true}
	y := newSys(s, bc)
	if t.Bool("json", 1, 4) {
		y.Enc = iscp.EncodingNameJSON
	}
	y.PingInterval = Pick(t, "ping-iv", 10*time.Second, 2*time.Second)
	y.PingTimeout = Pick(t, "ping-to", 5*time.Second, 2*time.Second)
	nCallers := Pick(t, "ncallers", 3, 2, 4, 6)
	maxSteps := Pick(t, "steps", 60, 25, 120)
	if s.Tier == "thorough" {
		maxSteps *= 3
	}
	s.yieldDensity = Pick(t, "yield", 0, 0, 20, 200)
	withCut := t.Bool("with-cut", 1, 4)
	cutsLeft := 0
	if withCut {
		cutsLeft = 1
	}
	// tasks: callers, then a call receiver and a reply receiver
	recvT, replyT := nCallers, nCallers+1
	s.NewTasks(nCallers + 2)
	s.Start(0, y.connectOp())
	s.Wait()
	y.Pump()
	if y.ConnOp = s.ops[0]; !y.ConnOp.harvested || y.ConnOp.Err != nil {
		s.HarnessError("connect did not succeed: %v", y.ConnOp.Err)
		return
	}
	b := s.Broker
	var calls []*callRec
	var inboundCalls, inboundReplies []string // call ids emitted to the client, in order
	var gotCalls, gotReplies []*Op
	replied := map[string]bool{}
	n := 0
	link := func() *Link {
		ls := y.aliveLinks()
		if len(ls) == 0 {
			return nil
		}
		return ls[len(ls)-1]
	}
	if t.Bool("replies-never-drained", 1, 150) {
		// an application that only uses SendCallAndWaitReplayCall and never calls ReceiveReplyCall:
		// each call still gets its own reply, however many replies nobody ever picks up
		s.Family = "e2e-calls/replies-never-drained"
		nn := Pick(t, "undrained-n", 1030, 1100)
		b.Cfg.AutoCallAck = true
		for k := 0; k < nn; k++ {
			n++
			name := fmt.Sprintf("q%d", n)
			op := y.sendCallOp("call-wait", name, "payload-"+name, "")
			op.CtxKind, op.Timeout = "deadline", 30*time.Second
			s.Start(0, op)
			s.Wait()
			y.flushLinks()
			var bc *bCall
			for i := len(b.Calls) - 1; i >= 0; i-- {
				if b.Calls[i].Msg.Name == name {
					bc = b.Calls[i]
					break
				}
			}
			l := link()
			if bc == nil || l == nil {
				s.HarnessError("undrained-replies: call %s did not reach the broker", name)
				return
			}
			replied[bc.Msg.CallID] = true
			b.EmitCall(l, "rep-"+bc.Msg.CallID, bc.Msg.CallID, "peer", "reply-to-"+name, []byte("reply-payload-"+name))
			y.flushLinks()
			if !op.harvested {
				y.PumpUntil(func() bool { return op.harvested }, 100*time.Millisecond, 5*time.Second)
			}
			r, _ := op.Res.(*iscp.DownstreamReplyCall)
			if !op.harvested || op.Err != nil || r == nil || string(r.Payload) != "reply-payload-"+name {
				s.Violate("C16.reply-not-delivered-to-caller", "replies-never-drained", "SendCallAndWaitReplayCall #%d (%s) of an application that never calls ReceiveReplyCall: returned=%v err=%s although the broker acknowledged the call and sent its reply", k+1, name, op.harvested, errString(op.Err))
				return
			}
		}
		b.Cfg.AutoCallAck = false
		s.Stat("env.replies-never-drained")
		withCut = true // the generic in-order oracle for ReceiveReplyCall does not apply (the queue overflowed)
		cutsLeft = 0
	}
	for step := 0; step < maxSteps; step++ {
		var acts []Action
		for ti := 0; ti < nCallers; ti++ {
			ti := ti
			if !s.Idle(ti) {
				continue
			}
			acts = append(acts, Action{Name: fmt.Sprintf("call t%d", ti), W: 8, Do: func() {
				n++
				kind := Pick(t, "call-kind", "call", "call-wait", "reply", "call")
				name := fmt.Sprintf("c%d", n)
				if t.Bool("neg-ack", 1, 6) {
					name = "!" + name
				}
				op := y.sendCallOp(kind, name, "payload-"+name, fmt.Sprintf("inbound-%d", n))
				if t.Bool("deadline", 1, 3) || withCut {
					op.CtxKind, op.Timeout = "deadline", Pick(t, "to", 30*time.Second, time.Second, 5*time.Second)
				}
				calls = append(calls, op.Meta.(*callRec))
				s.Start(ti, op)
			}})
		}
		if s.Idle(recvT) {
			acts = append(acts, Action{Name: "receive-call", W: 3, Do: func() {
				op := y.recvCallOp(false)
				if t.Bool("receive-with-ended-context", 1, 6) {
					op.CtxKind = "expired" // an error or the next call; a call is never taken and dropped
					s.Stat("env.receive-with-ended-context")
				}
				gotCalls = append(gotCalls, s.Start(recvT, op))
			}})
		}
		if s.Idle(replyT) {
			acts = append(acts, Action{Name: "receive-reply", W: 3, Do: func() {
				op := y.recvCallOp(true)
				if t.Bool("receive-with-ended-context", 1, 6) {
					op.CtxKind = "expired"
				}
				gotReplies = append(gotReplies, s.Start(replyT, op))
			}})
		}
		if l := link(); l != nil && len(inboundCalls)-countOK(gotCalls) < 900 {
			acts = append(acts, Action{Name: "inbound-call", W: 3, Do: func() {
				id := fmt.Sprintf("in-%d", len(inboundCalls)+1)
				b.EmitCall(l, id, "", "peer", "n-"+id, []byte("p-"+id))
				inboundCalls = append(inboundCalls, id)
			}})
			// replies: for calls the broker has seen and that expect one; also before the ack, and for unknown ids
			var waiting []*bCall
			for _, c := range b.Calls {
				if c.Msg.RequestCallID == "" && !replied[c.Msg.CallID] {
					waiting = append(waiting, c)
				}
			}
			if len(waiting) > 0 && len(inboundReplies)-countOK(gotReplies) < 900 {
				acts = append(acts, Action{Name: "reply", W: 5, Do: func() {
					c := waiting[t.Choose("reply-which", len(waiting))]
					replied[c.Msg.CallID] = true
					id := "rep-" + c.Msg.CallID
					b.EmitCall(l, id, c.Msg.CallID, "peer", "reply-to-"+c.Msg.Name, []byte("reply-payload-"+c.Msg.Name))
					inboundReplies = append(inboundReplies, id)
				}})
			}
			if len(inboundReplies)-countOK(gotReplies) < 900 {
				acts = append(acts, Action{Name: "reply-unknown-id", W: 1, Do: func() {
					id := fmt.Sprintf("rep-unknown-%d", len(inboundReplies)+1)
					b.EmitCall(l, id, fmt.Sprintf("no-such-call-%d", step), "peer", "stray", []byte("stray"))
					inboundReplies = append(inboundReplies, id)
					s.Stat("env.reply-for-unknown-call")
				}})
			}
			var acked []*bCall
			for _, c := range b.Calls {
				if len(c.Acked) > 0 {
					acked = append(acked, c)
				}
			}
			if len(acked) > 0 {
				acts = append(acts, Action{Name: "duplicate-ack", W: 1, Do: func() {
					c := acked[t.Choose("dupack-which", len(acked))]
					l.push(&message.UpstreamCallAck{CallID: c.Msg.CallID, ResultCode: c.Acked[0], ResultString: "dup"})
					s.Stat("env.duplicate-call-ack")
				}})
			}
		}
		for _, l := range y.aliveLinks() {
			l := l
			if l.PendingC2B() > 0 {
				acts = append(acts, Action{Name: "ingest " + l.String(), W: 6, Do: func() { l.IngestOne() }})
			}
			if l.PendingB2C() > 0 {
				acts = append(acts, Action{Name: "deliver " + l.String(), W: 6, Do: func() { l.DeliverOne() }})
			}
		}
		if len(b.Pend) > 0 {
			acts = append(acts, Action{Name: "release", W: 8, Do: func() { y.releaseOne() }})
		}
		if cutsLeft > 0 && link() != nil {
			acts = append(acts, Action{Name: "cut", W: 1, Do: func() {
				cutsLeft--
				l := link()
				l.Kill(errClosed, errClosed)
				s.Stat("fault.cut")
				s.Logf("fault: cut %s", l)
			}})
		}
		acts = append(acts, Action{Name: "advance", W: 3, Do: func() {
			y.Advance(Pick(t, "adv", time.Millisecond, 50*time.Millisecond, 500*time.Millisecond, 2*time.Second))
		}})
		s.Step(acts)
	}
	// settle: acknowledge and reply to everything
	for i := 0; i < 600; i++ {
		y.flushLinks()
		if len(b.Pend) > 0 {
			y.releaseOne()
			continue
		}
		l := link()
		progressed := false
		if l != nil {
			for _, c := range b.Calls {
				if c.Msg.RequestCallID == "" && !replied[c.Msg.CallID] && c.Link == l.ID {
					replied[c.Msg.CallID] = true
					id := "rep-" + c.Msg.CallID
					b.EmitCall(l, id, c.Msg.CallID, "peer", "reply-to-"+c.Msg.Name, []byte("reply-payload-"+c.Msg.Name))
					inboundReplies = append(inboundReplies, id)
					progressed = true
					break
				}
			}
		}
		if progressed {
			continue
		}
		busyCallers := false
		for ti := 0; ti < nCallers; ti++ {
			if !s.Idle(ti) {
				busyCallers = true
			}
		}
		if !busyCallers {
			break
		}
		y.Advance(time.Second)
	}
	y.Pump()
	// drain receivers
	for k := 0; k < 2000; k++ {
		if s.Idle(recvT) && countOK(gotCalls) < len(inboundCalls) {
			gotCalls = append(gotCalls, s.Start(recvT, y.recvCallOp(false)))
			s.Wait()
			s.Harvest()
			continue
		}
		if s.Idle(replyT) && countOK(gotReplies) < len(inboundReplies) {
			gotReplies = append(gotReplies, s.Start(replyT, y.recvCallOp(true)))
			s.Wait()
			s.Harvest()
			continue
		}
		break
	}

	// ---- oracle ----
	ids := map[string]bool{}
	for _, c := range b.Calls {
		if ids[c.Msg.CallID] {
			s.Violate("C16.call-id-reused", "", "call id %s used by two calls on the wire", c.Msg.CallID)
		}
		ids[c.Msg.CallID] = true
	}
	byName := map[string]*bCall{}
	for _, c := range b.Calls {
		byName[c.Msg.Name] = c
	}
	for _, rec := range calls {
		op := rec.Op
		if !op.harvested {
			if withCut {
				continue // ack lost with the link: the caller waits for its context (C08 bounds that)
			}
			s.Violate("C16.caller-stuck", rec.Kind, "Send%s(%s) has not returned although the broker acknowledged (and replied to) every call", rec.Kind, rec.Name)
			continue
		}
		bc := byName[rec.Name]
		neg := strings.HasPrefix(rec.Name, "!")
		cls := errClass(op.Err)
		if op.Err != nil {
			switch {
			case neg && (cls == "iscp" || cls == "other"):
			case (cls == "ctx-deadline" || cls == "ctx-canceled") && op.CtxKind != "bg":
			case withCut && (cls == "conn-closed" || cls == "other"):
			default:
				s.Violate("C16.caller-error", rec.Kind+":"+cls, "Send%s(%s) failed with %q; the broker acknowledged it with success", rec.Kind, rec.Name, errString(op.Err))
			}
			continue
		}
		if neg {
			s.Violate("C16.negative-ack-ignored", rec.Kind, "Send%s(%s) returned nil although the broker acknowledged it negatively", rec.Kind, rec.Name)
			continue
		}
		if bc == nil {
			s.Violate("C16.call-not-sent", rec.Kind, "Send%s(%s) returned nil but the broker never saw the call", rec.Kind, rec.Name)
			continue
		}
		switch rec.Kind {
		case "call", "reply":
			if got, _ := op.Res.(string); got != bc.Msg.CallID {
				s.Violate("C16.wrong-call-id", rec.Kind, "Send%s(%s) returned call id %q, its call went out as %q", rec.Kind, rec.Name, got, bc.Msg.CallID)
			}
			if string(bc.Msg.Payload) != rec.Payload {
				s.Violate("C16.call-altered", rec.Kind, "call %s reached the broker with payload %q", rec.Name, bc.Msg.Payload)
			}
		default:
			r, ok := op.Res.(*iscp.DownstreamReplyCall)
			if !ok || r == nil {
				s.Violate("C16.wrong-reply", "nil", "SendCallAndWaitReplayCall(%s) returned no reply", rec.Name)
				continue
			}
			if r.RequestCallID != bc.Msg.CallID || string(r.Payload) != "reply-payload-"+rec.Name {
				s.Violate("C16.wrong-reply", "", "SendCallAndWaitReplayCall(%s) (call id %s) returned the reply for request %s with payload %q", rec.Name, bc.Msg.CallID, r.RequestCallID, r.Payload)
			}
		}
	}
	if !withCut {
		// inbound calls / replies come out once each, unmodified, in arrival order
		var got []string
		for _, op := range gotCalls {
			if op.harvested && op.Err == nil {
				c := op.Res.(*iscp.DownstreamCall)
				got = append(got, c.CallID)
				if c.Name != "n-"+c.CallID || string(c.Payload) != "p-"+c.CallID || c.SourceNodeID != "peer" {
					s.Violate("C16.inbound-call-altered", "", "ReceiveCall returned %+v", c)
				}
			}
		}
		if strings.Join(got, ",") != strings.Join(inboundCalls, ",") {
			s.Violate("C16.inbound-call-order", "", "ReceiveCall returned %v, the broker sent %v", firstN(got, 8), firstN(inboundCalls, 8))
		}
		got = nil
		for _, op := range gotReplies {
			if op.harvested && op.Err == nil {
				got = append(got, op.Res.(*iscp.DownstreamReplyCall).CallID)
			}
		}
		if strings.Join(got, ",") != strings.Join(inboundReplies, ",") {
			s.Violate("C16.inbound-reply-order", "", "ReceiveReplyCall returned %v, the broker sent %v", firstN(got, 8), firstN(inboundReplies, 8))
		}
	}
	// ---- probe: concurrent calls, acknowledged newest first and only once the broker has seen them all ----
	if l := link(); l != nil && !withCut && t.Bool("probe-acks-newest-first", 1, 3) {
		allIdle := true
		for ti := 0; ti < nCallers; ti++ {
			allIdle = allIdle && s.Idle(ti)
		}
		if allIdle && len(b.Pend) == 0 {
			k := 2 + t.Choose("probe-nf-callers", nCallers-1)
			seen0 := len(b.Calls)
			var ops []*Op
			for ti := 0; ti < k; ti++ {
				n++
				op := y.sendCallOp("call", fmt.Sprintf("nf%d", n), "payload-nf", "")
				op.CtxKind, op.Timeout = "deadline", 20*time.Second
				ops = append(ops, s.Start(ti, op))
			}
			s.Wait()
			y.flushLinks()
			s.Wait()
			y.flushLinks()
			s.Stat("env.concurrent-calls-acked-newest-first")
			if got := len(b.Calls) - seen0; got < k && link() == l {
				s.Violate("C16.call-held-behind-another-call", "", "%d goroutines called SendCall at the same time on a healthy connection; when all of them had come to rest only %d of the %d calls had been written: a call is not sent while another one waits for its ack, so a broker that acknowledges them in another order than they were issued can never do so", k, got, k)
			}
			var acks []*pend
			for _, p := range b.Pend {
				if p.Kind == "callack" {
					acks = append(acks, p)
				}
			}
			for i := len(acks) - 1; i >= 0; i-- {
				b.Release(acks[i], nil)
				y.flushLinks()
				s.Wait()
			}
			y.PumpUntil(func() bool {
				for _, op := range ops {
					if !op.harvested {
						return false
					}
				}
				return true
			}, 500*time.Millisecond, 5*time.Second)
			for _, op := range ops {
				if link() != l {
					break
				}
				if !op.harvested {
					s.Violate("C16.caller-stuck", "acks-newest-first", "SendCall(%s) has not returned 5 s after the broker acknowledged all %d concurrent calls, newest first", op.Args, k)
				} else if op.Err != nil {
					s.Violate("C16.caller-error", "acks-newest-first:"+errClass(op.Err), "SendCall(%s) failed with %q although the broker acknowledged all %d concurrent calls (newest first)", op.Args, errString(op.Err), k)
				}
			}
		}
	}
	// ---- probe: a reply that is delayed across a reconnect still reaches its caller ----
	if l := link(); l != nil && s.Idle(0) && t.Bool("probe-reply-across-reconnect", 1, 2) {
		variant := Pick(t, "probe-variant", "ack-then-cut", "cut-then-call")
		n++
		name := fmt.Sprintf("probe%d", n)
		op := y.sendCallOp("call-wait", name, "payload-"+name, "")
		op.CtxKind, op.Timeout = "deadline", 120*time.Second
		findCall := func() *bCall {
			var last *bCall
			for _, c := range b.Calls {
				if c.Msg.Name == name {
					last = c
				}
			}
			return last
		}
		releaseAck := func() bool {
			c := findCall()
			if c == nil {
				return false
			}
			for _, p := range append([]*pend(nil), b.Pend...) {
				if p.Kind == "callack" && p.Desc == "callack "+c.Msg.CallID {
					b.Release(p, nil)
				}
			}
			y.flushLinks()
			return true
		}
		armed := true
		if variant == "ack-then-cut" {
			s.Start(0, op)
			s.Wait()
			y.flushLinks()
			armed = releaseAck() // the caller has its ack and now waits for the reply
			s.Wait()
			l.Kill(errClosed, errClosed)
		} else {
			l.Kill(errClosed, errClosed)
			s.Wait()
			s.Start(0, op) // issued during the outage: sent after recovery
			s.Wait()
		}
		s.Stat("fault.cut")
		for i := 0; i < 60 && (link() == nil || link() == l); i++ {
			y.Advance(time.Second)
		}
		y.Pump()
		y.Advance(time.Second)
		y.Pump()
		nl := link()
		if variant == "cut-then-call" && nl != nil && nl != l {
			y.PumpUntil(func() bool { return findCall() != nil }, 500*time.Millisecond, 20*time.Second)
			armed = releaseAck()
		}
		if c := findCall(); armed && c != nil && nl != nil && nl != l && !op.harvested {
			s.Stat("env.reply-delivered-after-reconnect")
			b.EmitCall(nl, "rep-"+c.Msg.CallID, c.Msg.CallID, "peer", "reply-to-"+name, []byte("reply-payload-"+name))
			y.PumpUntil(func() bool { return op.harvested }, 100*time.Millisecond, 10*time.Second)
			switch {
			case !op.harvested:
				s.Violate("C16.reply-lost-across-reconnect", variant, "SendCallAndWaitReplayCall(%s): the call was acknowledged, the connection was lost and re-established, and the reply (request call id %s) arrived on the new connection, but the caller is still waiting 10 s later", name, c.Msg.CallID)
			case op.Err != nil:
				s.Violate("C16.reply-lost-across-reconnect", variant+":"+errClass(op.Err), "SendCallAndWaitReplayCall(%s) failed with %q although its reply arrived after the reconnect, well within its deadline", name, errString(op.Err))
			default:
				if r, ok := op.Res.(*iscp.DownstreamReplyCall); !ok || r == nil || r.RequestCallID != c.Msg.CallID || string(r.Payload) != "reply-payload-"+name {
					s.Violate("C16.wrong-reply", "across-reconnect", "SendCallAndWaitReplayCall(%s) returned %+v after the reconnect", name, op.Res)
				}
			}
		}
	}
	s.Nontrivial()
	s.sample = map[string]any{"calls": len(calls), "inbound_calls": len(inboundCalls), "replies": len(inboundReplies), "with_cut": withCut}
	for _, tk := range s.tasks {
		if tk.busy != nil {
			s.CancelOp(tk.busy)
		}
	}
	s.Wait()
	s.Harvest()
	if s.Idle(0) {
		cop := y.closeConnOp()
		s.Start(0, cop)
		s.Wait()
		y.PumpUntil(func() bool { return cop.harvested }, time.Second, 30*time.Second)
	}
	y.teardown()
}

func countOK(ops []*Op) int {
	n := 0
	for _, op := range ops {
		if op.harvested && op.Err == nil {
			n++
		}
	}
	return n
}

var _ = iscperrors.ErrISCP
