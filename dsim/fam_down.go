package dsim

import (
	"context"
	"fmt"
	"sort"
	"strings"
	"time"

	"github.com/aptpod/iscp-go/iscp"
	"github.com/aptpod/iscp-go/message"
)

// Downstream family on a connection that stays up: C03 (delivery, order, alias
// resolution, metadata) and C04 (acks and alias announcements).

func init() {
	scenarios["C03"] = func(s *Sim) { runDownFamily(s, "C03") }
	scenarios["C04"] = func(s *Sim) { runDownFamily(s, "C04") }
}

type downCtx struct {
	cutsSeen                           int
	y                                  *Sys
	prop                               string
	nRemote                            int
	nIDs                               int
	metaReq                            uint32
	outstanding                        map[*downH]int // chunks delivered to the client but not yet read
	outMeta                            map[*downH]int
	readIdx, readCnt, metaIdx, metaCnt map[*downH]int
	bursted                            map[*downH]bool
}

func runDownFamily(s *Sim, prop string) {
	t := s.T
	s.Family = "downstream-steady"
	bc := BrokerCfg{AutoReq: true, AutoAck: true, AutoPong: true, AutoCallAck: true, AutoAckComplete: !t.Bool("manual-ackcomplete", 1, 3)}
	// two streams of one session of one node (same source node id and session id, different stream ids)
	bc.SharedSessions = t.Bool("shared-sessions", 1, 4)
	y := newSys(s, bc)
	// a connection with a datagram side: the chunks of unreliable downstreams arrive there, read and
	// decoded by a goroutine of their own beside the reliable read path
	s.Net.Unrel = t.Bool("datagram-side", 1, 3)
	y.ScribbleReads = t.Bool("application-edits-returned-chunks", 1, 4)
	if t.Bool("json", 1, 4) {
		y.Enc = iscp.EncodingNameJSON
	}
	y.PingInterval, y.PingTimeout = time.Hour, time.Hour
	dc := &downCtx{y: y, prop: prop, outstanding: map[*downH]int{}, outMeta: map[*downH]int{}, readIdx: map[*downH]int{}, readCnt: map[*downH]int{}, metaIdx: map[*downH]int{}, metaCnt: map[*downH]int{}, bursted: map[*downH]bool{}}
	nDown := Pick(t, "ndown", 1, 1, 2, 3)
	dc.nRemote = Pick(t, "nremote", 2, 1, 3, 6)
	dc.nIDs = Pick(t, "nids", 3, 1, 5, 10)
	maxSteps := Pick(t, "steps", 60, 20, 120, 200)
	if s.Tier == "thorough" {
		maxSteps *= Pick(t, "steps-x", 1, 2, 4)
	}
	s.yieldDensity = Pick(t, "yield", 0, 0, 20, 200)
	// a broker that is slow to take the client's frames: ack writes stay in flight while reads go on
	if w := Pick(t, "link-window", 0, 0, 1, 2); w > 0 {
		s.Net.Window = w
		s.Stat("env.link-backpressure")
	}
	closeEarly := prop == "C04" && t.Bool("close-early", 1, 2)
	badAlias := prop == "C03" && t.Bool("bad-alias", 1, 3)
	// C04 variants: one transport failure in the middle (acks across resume), and a burst of reads
	// right before Close (many results and announcements pending when Close is called)
	cutsLeft := 0
	if prop == "C04" && t.Bool("with-cut", 1, 3) {
		cutsLeft = 1
		y.PingInterval, y.PingTimeout = 2*time.Second, time.Second
		s.Family = "downstream-resume"
	}
	hadCut := false
	burstBeforeClose := 0
	if prop == "C04" {
		burstBeforeClose = Pick(t, "burst-before-close", 0, 5, 70, 150, 300)
	}

	// tasks: 0 control, per downstream a chunk reader and a metadata reader
	nTasksDown := 1 + 2*nDown
	if s.RaceMode {
		nTasksDown += nDown // a second goroutine reading the same stream (the oracles are not judged in race mode)
	}
	s.NewTasks(nTasksDown)
	s.Start(0, y.connectOp())
	s.Wait()
	y.Pump()
	if y.ConnOp = s.ops[0]; !y.ConnOp.harvested || y.ConnOp.Err != nil {
		s.HarnessError("connect did not succeed: %v", y.ConnOp.Err)
		return
	}
	for i := 0; i < nDown; i++ {
		sp := downSpec{QoS: Pick(t, "dqos", message.QoSUnreliable, message.QoSReliable, message.QoSPartial),
			AckFlush: Pick(t, "ackflush", time.Duration(0), 10*time.Millisecond, time.Second, 10*time.Second)}
		nsrc := Pick(t, "nsrc", 3, 1, 2)
		for k := 0; k < nsrc; k++ {
			sp.Sources = append(sp.Sources, fmt.Sprintf("node-%d", k+1))
		}
		if t.Bool("dup-source-filter", 1, 5) {
			// two filters may name the same source node (e.g. with different data filters)
			sp.Sources = append(sp.Sources, sp.Sources[0])
			s.Stat("env.duplicate-source-in-filters")
		}
		npre := Pick(t, "npre", 0, 0, 2, 5)
		for k := 0; k < npre; k++ {
			sp.PreIDs = append(sp.PreIDs, dataID(k))
		}
		if npre > 0 && t.Bool("pre-id-twice", 1, 4) {
			// the application's list of pre-registered ids may name one id twice
			sp.PreIDs = append(sp.PreIDs, sp.PreIDs[0])
			s.Stat("env.pre-registered-id-twice")
		}
		op := s.Start(0, y.openDownOp(sp))
		s.Wait()
		y.Pump()
		if !op.harvested || op.Err != nil {
			s.HarnessError("open downstream did not succeed: %v", op.Err)
			return
		}
	}

	closed := map[*downH]bool{}
	lateWriteErrors := 0
	if prop == "C04" && t.Bool("late-write-errors", 1, 4) {
		lateWriteErrors = Pick(t, "late-write-errors-n", 1, 2)
	}
	for step := 0; step < maxSteps; step++ {
		var acts []Action
		for i, h := range y.Downs {
			h := h
			rt, mt := 1+2*i, 2+2*i
			if closed[h] {
				continue
			}
			room := 0
			if h.B.link != nil && h.B.link.Alive() {
				// the consumer "keeps up" as long as fewer than 1024 items wait for it (documented buffering)
				room = 1000 - dc.unread(h) - h.B.link.PendingB2C()
				if m := 1000 - dc.unreadMeta(h) - h.B.link.PendingB2C(); m < room {
					room = m
				}
			}
			if room > 0 {
				acts = append(acts, Action{Name: fmt.Sprintf("emit d%d", i), W: 10, Do: func() { dc.emit(h, false) }})
				if room > 20 && !dc.bursted[h] {
					acts = append(acts, Action{Name: fmt.Sprintf("burst d%d", i), W: 1, Do: func() {
						dc.bursted[h] = true
						// a burst that arrives while nobody reads: up to the documented buffering
						k := Pick(t, "burst-n", 130, 40, 500, 990)
						if k > room {
							k = room
						}
						meta := t.Bool("burst-meta", 1, 3)
						for j := 0; j < k; j++ {
							if meta {
								dc.emitMeta(h)
							} else {
								dc.emit(h, false)
							}
						}
						h.B.link.DeliverAll()
						s.StatN("env.burst-items", k)
					}})
				}
				if badAlias {
					acts = append(acts, Action{Name: fmt.Sprintf("emit-bad d%d", i), W: 1, Do: func() { dc.emit(h, true) }})
				}
				acts = append(acts, Action{Name: fmt.Sprintf("emit-meta d%d", i), W: 2, Do: func() { dc.emitMeta(h) }})
			}
			if s.Idle(rt) {
				acts = append(acts, Action{Name: fmt.Sprintf("read d%d", i), W: 9, Do: func() {
					op := y.readOp(h)
					if t.Bool("read-with-ended-context", 1, 8) {
						op.CtxKind = "expired" // returns an error or the next chunk, never disturbs the order
						s.Stat("env.read-with-ended-context")
					}
					s.Start(rt, op)
				}})
			}
			if s.Idle(mt) {
				acts = append(acts, Action{Name: fmt.Sprintf("read-meta d%d", i), W: 2, Do: func() { s.Start(mt, y.readMetaOp(h)) }})
			}
			if rt2 := 1 + 2*nDown + i; s.RaceMode && s.Idle(rt2) {
				acts = append(acts, Action{Name: fmt.Sprintf("read-2nd-goroutine d%d", i), W: 6, Do: func() { s.Start(rt2, y.readOp(h)) }})
			}
			if closeEarly && s.Idle(0) {
				acts = append(acts, Action{Name: fmt.Sprintf("close d%d", i), W: 1, Do: func() {
					closed[h] = true
					s.Start(0, y.closeDownOp(h))
				}})
			}
		}
		for _, l := range y.aliveLinks() {
			l := l
			if l.PendingC2B() > 0 {
				acts = append(acts, Action{Name: "ingest " + l.String(), W: 5, Do: func() { l.IngestOne() }})
			}
			if l.PendingB2C() > 0 {
				acts = append(acts, Action{Name: "deliver " + l.String(), W: 8, Do: func() { l.DeliverOne() }})
			}
		}
		if len(s.Broker.Pend) > 0 {
			acts = append(acts, Action{Name: "release", W: 3, Do: func() { y.releaseOne() }})
		}
		if lateWriteErrors > 0 && y.PingInterval >= time.Hour {
			acts = append(acts, Action{Name: "late-write-error", W: 1, Do: func() {
				// the client's next frame (an ack: keepalive is out of reach here) is delivered, but its
				// write reports an error
				lateWriteErrors--
				for _, l := range y.aliveLinks() {
					l.LateErrorNextWrites(1)
				}
			}})
		}
		acts = append(acts, Action{Name: "pump", W: 4, Do: func() { y.Pump() }})
		acts = append(acts, Action{Name: "advance", W: 4, Do: func() {
			y.Advance(Pick(t, "adv", time.Millisecond, 10*time.Millisecond, 100*time.Millisecond, time.Second, 11*time.Second))
		}})
		if s.Net.Window > 0 && y.PingInterval >= time.Hour {
			// time passes while the broker has not taken the client's frames yet (keepalive is out
			// of reach in this variant): ack-flush ticks find their predecessor still in flight
			acts = append(acts, Action{Name: "advance-without-network", W: 4, Do: func() {
				s.Advance(Pick(t, "adv-raw", 10*time.Millisecond, 100*time.Millisecond, time.Second, 11*time.Second))
			}})
		}
		if cutsLeft > 0 && step > maxSteps/4 {
			acts = append(acts, Action{Name: "cut", W: 1, Do: func() {
				cutsLeft--
				hadCut = true
				dc.cutsSeen++
				for _, l := range y.aliveLinks() {
					if t.Bool("cut-ingest", 1, 2) {
						l.IngestAll()
					}
					l.Kill(errClosed, errClosed)
				}
				s.Stat("fault.cut")
				s.Logf("fault: cut")
			}})
		}
		s.Step(acts)
	}
	if hadCut {
		// let the connection come back and the streams resume
		for i := 0; i < 30; i++ {
			y.Pump()
			y.Advance(time.Second)
		}
	}

	// settle: deliver everything, then read until every delivered chunk has been consumed
	y.Pump()
	for i, h := range y.Downs {
		rt, mt := 1+2*i, 2+2*i
		if closed[h] {
			continue
		}
		for k := 0; k < 1200; k++ {
			if !s.Idle(rt) {
				y.Pump()
				if !s.Idle(rt) {
					break // blocked: nothing left to read
				}
			}
			if dc.unread(h) == 0 {
				break
			}
			s.Start(rt, y.readOp(h))
			s.Wait()
			s.Harvest()
		}
		for k := 0; k < 1200; k++ {
			if !s.Idle(mt) {
				y.Pump()
				if !s.Idle(mt) {
					break
				}
			}
			if dc.unreadMeta(h) == 0 {
				break
			}
			s.Start(mt, y.readMetaOp(h))
			s.Wait()
			s.Harvest()
		}
	}
	y.Pump()
	// let the ack flush interval pass on a healthy link (C04: acks of everything read)
	for k := 0; k < 12; k++ {
		y.Advance(time.Second)
		y.Pump()
	}
	// optionally: a burst of chunks from many upstreams / data ids, all read at once, and Close
	// immediately afterwards (no clock advance): everything is still pending when Close is called
	if burstBeforeClose > 0 {
		for i, h := range y.Downs {
			rt := 1 + 2*i
			if closed[h] || h.B.link == nil || !h.B.link.Alive() || !s.Idle(rt) {
				continue
			}
			for k := 0; k < burstBeforeClose; k++ {
				dc.emit(h, false)
			}
			y.flushLinks()
			for k := 0; k < burstBeforeClose+5 && dc.unread(h) > 0 && s.Idle(rt); k++ {
				s.Start(rt, y.readOp(h))
				s.Wait()
				s.Harvest()
			}
			s.StatN("c04.results-pending-at-close", burstBeforeClose)
		}
	}
	// pending readers block for ever on an idle stream: end them before closing
	for _, tk := range s.tasks[1:] {
		if tk.busy != nil {
			s.CancelOp(tk.busy)
		}
	}
	s.Wait()
	s.Harvest()
	if !s.Idle(0) {
		y.PumpUntil(func() bool { return s.Idle(0) }, time.Second, 30*time.Second)
	}
	for _, h := range y.Downs {
		if closed[h] || !s.Idle(0) {
			continue
		}
		// optionally read a little more right before Close so that results are pending at Close
		cl := y.closeDownOp(h)
		if prop == "C04" && t.Bool("close-with-deadline", 1, 3) {
			// a deadline shorter than the longer ack flush intervals: the final acks do not wait for a tick
			cl.CtxKind, cl.Timeout = "deadline", Pick(t, "close-deadline", time.Second, 200*time.Millisecond, 5*time.Second)
			s.Stat("env.close-with-deadline")
		}
		op := s.Start(0, cl)
		if prop == "C04" && s.Idle(1) && t.Bool("second-close-at-the-same-time", 1, 4) {
			// another goroutine of the application closes the same stream at the same moment: one of the
			// two calls does the work (the other is told so); the final acks still precede the close request
			cl2 := &Op{Name: "Downstream.Close", Args: fmt.Sprintf("d%d (second caller)", h.Idx), Meta: h, Run: func(ctx context.Context) (any, error) { return nil, h.D.Close(ctx) }}
			cl2.CtxKind, cl2.Timeout = "deadline", 5*time.Second
			s.Start(1, cl2)
			s.Stat("env.second-close-at-the-same-time")
		}
		s.Wait()
		y.PumpUntil(func() bool { return op.harvested }, time.Second, 30*time.Second)
	}
	y.Pump()
	if s.Idle(0) {
		cop := s.Start(0, y.closeConnOp())
		s.Wait()
		y.PumpUntil(func() bool { return cop.harvested }, time.Second, 30*time.Second)
	}
	y.teardown()
	s.Nontrivial()
	if prop == "C03" {
		oracleC03(s, y)
	} else {
		oracleC04(s, y, closed, hadCut)
	}
	var sample []map[string]any
	for _, h := range y.Downs {
		if h.B != nil {
			sample = append(sample, map[string]any{"qos": h.Spec.QoS.String(), "sources": h.Spec.Sources, "pre_ids": len(h.Spec.PreIDs), "ackflush": h.Spec.AckFlush.String(),
				"chunks_sent": len(h.B.Sent), "reads": len(h.Reads), "acks": len(h.B.Acks), "metadata": len(h.B.Metas)})
		}
	}
	s.sample = sample
}

// unread: chunks delivered to the client and not yet returned by a read (or consumed by a failed read).
func (dc *downCtx) unread(h *downH) int {
	delivered := 0
	if h.B.link != nil {
		delivered = len(h.B.Sent) - h.B.link.PendingB2Cchunks(h.B.Alias)
	} else {
		delivered = len(h.B.Sent)
	}
	// incremental count of the reads that consumed an item
	i, n := dc.readIdx[h], dc.readCnt[h]
	for i < len(h.Reads) && h.Reads[i].harvested {
		if r := h.Reads[i]; r.Err == nil || !isCtxErr(r.Err) {
			n++
		}
		i++
	}
	dc.readIdx[h], dc.readCnt[h] = i, n
	return delivered - n
}

func (dc *downCtx) unreadMeta(h *downH) int {
	i, n := dc.metaIdx[h], dc.metaCnt[h]
	for i < len(h.MetaReads) && h.MetaReads[i].harvested {
		if h.MetaReads[i].Err == nil {
			n++
		}
		i++
	}
	dc.metaIdx[h], dc.metaCnt[h] = i, n
	return len(h.B.Metas) - n
}

func isCtxErr(err error) bool {
	c := errClass(err)
	return c == "ctx-canceled" || c == "ctx-deadline"
}

func (dc *downCtx) emit(h *downH, bad bool) {
	s, t := dc.y.s, dc.y.s.T
	b := s.Broker
	r := b.Remote(t.Choose("e-remote", dc.nRemote))
	if r.Ended {
		return // that upstream has ended: the broker sends nothing more from it
	}
	ng := Pick(t, "e-groups", 1, 1, 2, 3)
	if !bad && t.Bool("e-empty-chunk", 1, 15) {
		// a chunk without data point groups is a chunk like any other: returned once, acknowledged once
		ng = 0
		s.Stat("env.chunk-without-groups")
	}
	var groups []sentGroup
	for g := 0; g < ng; g++ {
		id := dataID(t.Choose("e-id", dc.nIDs))
		sg := sentGroup{ID: id}
		np := Pick(t, "e-points", 1, 1, 2, 0, 4)
		for k := 0; k < np; k++ {
			n := len(h.B.Sent)*16 + g*4 + k + 1
			sg.Points = append(sg.Points, pt{ID: id, Elapsed: time.Duration(n) * time.Microsecond,
				Payload: fmt.Sprintf("d%d|%s|%s|%d", h.Idx, r.Info.SessionID, id.Name, n)})
		}
		if as := h.B.AliasesOfData(id); len(as) > 0 && t.Bool("e-idalias", 2, 3) {
			sg.Alias = as[0]
			if len(as) > 1 {
				sg.Alias = as[t.Choose("e-which-alias", len(as))] // any alias the client announced for it
			}
		}
		groups = append(groups, sg)
	}
	upFull := true
	if h.B.HasUpAlias(r.Info) && t.Bool("e-upalias", 2, 3) {
		upFull = false
	}
	if bad {
		if t.Bool("bad-kind", 1, 2) {
			upFull = true // EmitChunk replaces the upstream by an unknown alias
			if t.Bool("bad-next-alias", 1, 2) && dc.cutsSeen == 0 && dc.unread(h) == 0 && h.B.link.PendingB2C() == 0 && dc.everythingAnnounced(h) {
				// not a far-away number but the very alias the client will hand out next: it has not
				// announced it, so the chunk is an error - also when a later chunk makes the client
				// assign that number before this one is read
				var max uint32
				for a := range h.B.upAlias {
					if a > max {
						max = a
					}
				}
				b.BadUpAlias = max + 1
				s.Stat("env.bad-upstream-alias-is-the-next-one")
			}
		} else {
			groups[0].Alias = 0xFFF00000 + uint32(len(h.B.Sent))
			bad = true
			sc := b.EmitChunk(h.B, r, groups, upFull, false)
			if sc != nil {
				sc.BadAlias = true
				s.Stat("env.bad-data-id-alias")
			}
			return
		}
		s.Stat("env.bad-upstream-alias")
	}
	b.EmitChunk(h.B, r, groups, upFull, bad)
	b.BadUpAlias = 0
	if !upFull {
		s.Stat("env.upstream-alias-form")
	}
}

// everythingAnnounced: every upstream the client has met in full form (in a chunk it has read) has
// been announced to the broker, i.e. the client's alias table holds nothing the broker does not know.
func (dc *downCtx) everythingAnnounced(h *downH) bool {
	seen := map[string]bool{}
	for _, r := range h.Reads {
		if !r.harvested {
			return false
		}
		if r.Err != nil && !isCtxErr(r.Err) {
			return false // a read that failed half-way (e.g. on a data id alias) may have registered its upstream already
		}
		if c, ok := r.Res.(*iscp.DownstreamChunk); ok && c != nil && r.Err == nil && c.UpstreamInfo != nil {
			seen[c.UpstreamInfo.StreamID.String()] = true
		}
	}
	return len(seen) == len(h.B.upAlias)
}

func (dc *downCtx) emitMeta(h *downH) {
	s, t := dc.y.s, dc.y.s.T
	src := h.Spec.Sources[t.Choose("m-src", len(h.Spec.Sources))]
	dc.metaReq += 2
	if len(dc.y.Downs) == 1 && dc.nRemote > 1 && t.Bool("m-upstream-closed", 1, 6) {
		// a remote upstream ends: the broker says so after that upstream's last chunk; chunks of it
		// that the consumer has not read yet (alias form included) are still delivered correctly
		r := s.Broker.Remote(t.Choose("m-closed-remote", dc.nRemote))
		inSources := false
		for _, x := range h.Spec.Sources {
			if x == r.Info.SourceNodeID {
				inSources = true
			}
		}
		if !r.Ended && inSources {
			s.Broker.EmitUpstreamClosedMetadata(h.B, r, dc.metaReq+1)
			s.Stat("env.remote-upstream-ended")
			return
		}
	}
	s.Broker.EmitMetadata(h.B, src, fmt.Sprintf("d%d-meta-%d", h.Idx, dc.metaReq), dc.metaReq+1)
}

// oracleC03: reads return exactly what the broker sent, once, in order, correctly resolved.
func oracleC03(s *Sim, y *Sys) {
	for _, h := range y.Downs {
		if h.B == nil {
			continue
		}
		d := fmt.Sprintf("d%d", h.Idx)
		// the outcomes of the reads, in invocation order (one reader task per stream => total order)
		var outcomes []*Op
		for _, r := range h.Reads {
			if r.harvested && !isCtxErr(r.Err) && errClass(r.Err) != "stream-closed" {
				outcomes = append(outcomes, r)
			}
		}
		var delivered []*sentChunk
		for _, sc := range h.B.Sent {
			delivered = append(delivered, sc)
		}
		n := len(outcomes)
		if n > len(delivered) {
			s.Violate("C03.read-invented", "", "%s: %d reads returned a result but the broker sent only %d chunks", d, n, len(delivered))
			n = len(delivered)
		}
		for i := 0; i < n; i++ {
			sc, r := delivered[i], outcomes[i]
			if sc.BadAlias {
				if r.Err == nil {
					c := r.Res.(*iscp.DownstreamChunk)
					s.Violate("C03.unknown-alias-delivered", "", "%s: chunk #%d used an alias the client never announced but ReadDataPoints returned it (as seq %d of %s)", d, i+1, c.SequenceNumber, c.UpstreamInfo.SessionID)
				}
				continue
			}
			if r.Err != nil {
				s.Violate("C03.read-error", errClass(r.Err), "%s: read #%d failed with %q for a well-formed chunk (seq %d of %s)", d, i+1, errString(r.Err), sc.Seq, sc.Info.SessionID)
				continue
			}
			c := r.Res.(*iscp.DownstreamChunk)
			if c.UpstreamInfo == nil || *c.UpstreamInfo != sc.Info || c.SequenceNumber != sc.Seq {
				got := "nil"
				if c.UpstreamInfo != nil {
					got = c.UpstreamInfo.SessionID
				}
				s.Violate("C03.order-or-attribution", "", "%s: read #%d returned seq %d of upstream %s, the broker's chunk #%d was seq %d of %s (alias form=%v)", d, i+1, c.SequenceNumber, got, i+1, sc.Seq, sc.Info.SessionID, sc.UpAlias != 0)
				continue
			}
			if len(c.DataPointGroups) != len(sc.Groups) {
				s.Violate("C03.groups", "", "%s: read #%d has %d groups, sent %d", d, i+1, len(c.DataPointGroups), len(sc.Groups))
				continue
			}
			for gi, g := range c.DataPointGroups {
				sg := sc.Groups[gi]
				if g.DataID == nil || *g.DataID != sg.ID {
					s.Violate("C03.data-id-resolution", "", "%s: read #%d group %d resolved to %v, the client announced alias %d for %v", d, i+1, gi, g.DataID, sg.Alias, sg.ID)
					continue
				}
				if len(g.DataPoints) != len(sg.Points) {
					s.Violate("C03.points", "", "%s: read #%d group %d has %d points, sent %d", d, i+1, gi, len(g.DataPoints), len(sg.Points))
					continue
				}
				for pi, p := range g.DataPoints {
					if p.ElapsedTime != sg.Points[pi].Elapsed || string(p.Payload) != sg.Points[pi].Payload {
						s.Violate("C03.point-content", "", "%s: read #%d group %d point %d is (%v,%q), sent (%v,%q)", d, i+1, gi, pi, p.ElapsedTime, trunc(string(p.Payload), 30), sg.Points[pi].Elapsed, trunc(sg.Points[pi].Payload, 30))
					}
				}
			}
		}
		if len(outcomes) < len(delivered) && h.CloseOp != nil && !closedEarly(h) {
			s.Violate("C03.chunk-not-returned", "", "%s: the broker sent %d chunks on a healthy link, the consumer kept up, but only %d came out of ReadDataPoints", d, len(delivered), len(outcomes))
		}
		// metadata: once each, in order per source node, acknowledged with the same request id
		perSrcSent := map[string][]string{}
		for _, m := range h.B.Metas {
			perSrcSent[m.Source] = append(perSrcSent[m.Source], m.Name)
		}
		perSrcGot := map[string][]string{}
		total := 0
		for _, r := range h.MetaReads {
			if !r.harvested || r.Err != nil {
				continue
			}
			m := r.Res.(*iscp.DownstreamMetadata)
			name := ""
			switch x := m.Metadata.(type) {
			case *message.BaseTime:
				name = x.Name
			case *message.UpstreamNormalClose:
				name = "upstream-closed:" + x.SessionID
			default:
				s.Violate("C03.metadata-type", "", "%s: metadata of unexpected type %T", d, m.Metadata)
				continue
			}
			perSrcGot[m.SourceNodeID] = append(perSrcGot[m.SourceNodeID], name)
			total++
		}
		for src, want := range perSrcSent {
			got := perSrcGot[src]
			if strings.Join(got, ",") != strings.Join(want, ",") {
				s.Violate("C03.metadata-order", "", "%s: source %s: ReadMetadata returned %v, the broker sent %v", d, src, firstN(got, 6), firstN(want, 6))
			}
		}
		for src := range perSrcGot {
			if _, ok := perSrcSent[src]; !ok {
				s.Violate("C03.metadata-invented", "", "%s: metadata attributed to source %s which the broker never used", d, src)
			}
		}
		acked := map[uint32]int{}
		for _, id := range h.B.MetaAcks {
			acked[id]++
		}
		for _, m := range h.B.Metas[:min(total, len(h.B.Metas))] {
			_ = m
		}
		if total == len(h.B.Metas) {
			for _, m := range h.B.Metas {
				if acked[m.ReqID] != 1 {
					s.Violate("C03.metadata-ack", "", "%s: metadata request id %d was returned by ReadMetadata but acknowledged %d times", d, m.ReqID, acked[m.ReqID])
				}
			}
		}
	}
	for _, x := range s.Broker.Unknown {
		s.Violate("C03.unattributable-frame", "", "broker received %s", x)
	}
}

func closedEarly(h *downH) bool { return false }

func firstN(xs []string, n int) []string {
	if len(xs) > n {
		return xs[:n]
	}
	return xs
}

// oracleC04: acks cover every consumed chunk once; aliases are announced consistently.
func oracleC04(s *Sim, y *Sys, closedEarlyMap map[*downH]bool, hadCut bool) {
	for _, h := range y.Downs {
		if h.B == nil {
			continue
		}
		d := fmt.Sprintf("d%d", h.Idx)
		// ack ids strictly increasing from 1
		var last uint32
		for i, a := range h.B.Acks {
			if i == 0 && a.AckID != 1 && !hadCut { // (an ack written to a dying link is lost with it)
				s.Violate("C04.ack-id", "first", "%s: first DownstreamChunkAck has ack id %d", d, a.AckID)
			}
			if i > 0 && a.AckID <= last {
				s.Violate("C04.ack-id", "order", "%s: ack id %d follows %d", d, a.AckID, last)
			}
			last = a.AckID
		}
		// what the reads returned
		type key struct {
			up  string
			seq uint32
		}
		returned := map[key]int{}    // every chunk a read returned
		beforeClose := map[key]int{} // ... by a read that had returned when Close was invoked
		nReturned := 0
		for _, r := range h.Reads {
			if r.harvested && r.Err == nil {
				c := r.Res.(*iscp.DownstreamChunk)
				k := key{c.UpstreamInfo.StreamID.String(), c.SequenceNumber}
				returned[k]++
				if h.CloseOp == nil || r.Return < h.CloseOp.Invoke {
					beforeClose[k]++
				}
				nReturned++
			}
		}
		ackedN := map[key]int{}
		for _, a := range h.B.Acks {
			for _, r := range a.Results {
				k := key{r.StreamIDOfUpstream.String(), r.SequenceNumberInUpstream}
				ackedN[k]++
				if returned[k] == 0 {
					s.Violate("C04.ack-for-unread-chunk", "", "%s: ack %d acknowledges seq %d of upstream %s which no ReadDataPoints returned", d, a.AckID, k.seq, k.up[len(k.up)-4:])
				}
			}
		}
		// ... and measured against what the broker actually sent on this stream: a result never names
		// an (upstream, sequence number) pair the broker did not send, nor one pair more often than sent
		sentN := map[key]int{}
		for _, sc := range h.B.Sent {
			sentN[key{sc.Info.StreamID.String(), sc.Seq}]++
		}
		for k, n := range ackedN {
			if n > sentN[k] {
				s.Violate("C04.ack-names-wrong-chunk", "", "%s: seq %d of upstream …%s acknowledged %d times, the broker sent that chunk %d times on this stream", d, k.seq, k.up[len(k.up)-4:], n, sentN[k])
				break
			}
		}
		for k, n := range ackedN {
			if n > returned[k] {
				s.Violate("C04.ack-duplicate", "", "%s: seq %d of upstream …%s acknowledged %d times, returned %d times", d, k.seq, k.up[len(k.up)-4:], n, returned[k])
			}
		}
		// the link stayed up and every flush interval has passed (or Close returned): full coverage
		// (with a transport failure, results and announcements pending at the cut are legitimately lost:
		// coverage is then only at-most-once, which the duplicate / unread checks above decide)
		if !hadCut && h.CloseOp != nil && h.CloseOp.harvested && h.CloseOp.Err == nil {
			missing := 0
			var ex key
			// (a read that overlaps Close may return a chunk after the final ack flush; the statement
			// is applied to reads that had returned before Close was called)
			for k, n := range beforeClose {
				if ackedN[k] < n {
					missing++
					ex = k
				}
			}
			if missing > 0 {
				s.Violate("C04.ack-missing", "", "%s: %d chunks returned by ReadDataPoints were never acknowledged although Close succeeded on a healthy link (e.g. seq %d of …%s); acks=%d", d, missing, ex.seq, ex.up[len(ex.up)-4:], len(h.B.Acks))
			}
		}
		// alias announcements: injective both ways, each full-form item announced once
		upByAlias := map[uint32]message.UpstreamInfo{}
		aliasByUp := map[message.UpstreamInfo]uint32{}
		idByAlias := map[uint32]message.DataID{}
		aliasByID := map[message.DataID]uint32{}
		for a, id := range h.B.Open.DataIDAliases {
			idByAlias[a] = *id
			aliasByID[*id] = a
		}
		for _, a := range h.B.Acks {
			als := make([]uint32, 0, len(a.UpAl))
			for al := range a.UpAl {
				als = append(als, al)
			}
			sort.Slice(als, func(i, j int) bool { return als[i] < als[j] })
			for _, al := range als {
				info := a.UpAl[al]
				if prev, ok := upByAlias[al]; ok && prev != info {
					s.Violate("C04.upstream-alias-reused", "", "%s: upstream alias %d announced for %s and later for %s", d, al, prev.SessionID, info.SessionID)
				}
				if prev, ok := aliasByUp[info]; ok && prev != al {
					s.Violate("C04.upstream-two-aliases", "", "%s: upstream %s announced under alias %d and again under alias %d (ack %d)", d, info.SessionID, prev, al, a.AckID)
				} else if ok && prev == al {
					s.Violate("C04.upstream-announced-twice", "", "%s: upstream %s alias %d announced twice", d, info.SessionID, al)
				}
				upByAlias[al] = info
				aliasByUp[info] = al
			}
			dls := make([]uint32, 0, len(a.DataAl))
			for al := range a.DataAl {
				dls = append(dls, al)
			}
			sort.Slice(dls, func(i, j int) bool { return dls[i] < dls[j] })
			for _, al := range dls {
				id := a.DataAl[al]
				if prev, ok := idByAlias[al]; ok && prev != id {
					s.Violate("C04.data-id-alias-reused", "", "%s: data id alias %d announced for %v and later for %v", d, al, prev, id)
				}
				if prev, ok := aliasByID[id]; ok && prev != al {
					s.Violate("C04.data-id-two-aliases", "", "%s: data id %v announced under alias %d and again under %d", d, id, prev, al)
				} else if ok && prev == al {
					s.Violate("C04.data-id-announced-twice", "", "%s: data id %v alias %d announced twice", d, id, al)
				}
				idByAlias[al] = id
				aliasByID[id] = al
			}
		}
		// every upstream / data id that a returned chunk carried in full form has been announced
		if !hadCut && h.CloseOp != nil && h.CloseOp.harvested && h.CloseOp.Err == nil {
			ri := 0
			for _, r := range h.Reads {
				if !(r.harvested && !isCtxErr(r.Err) && errClass(r.Err) != "stream-closed") {
					continue
				}
				if ri >= len(h.B.Sent) {
					break
				}
				sc := h.B.Sent[ri]
				ri++
				if r.Err != nil || r.Return >= h.CloseOp.Invoke {
					continue
				}
				if sc.UpAlias == 0 {
					if _, ok := aliasByUp[sc.Info]; !ok {
						s.Violate("C04.upstream-not-announced", "", "%s: upstream %s arrived in full form in a chunk that was read, but no alias was ever announced for it", d, sc.Info.SessionID)
					}
				}
				for _, g := range sc.Groups {
					if g.Alias == 0 {
						if _, ok := aliasByID[g.ID]; !ok {
							s.Violate("C04.data-id-not-announced", "", "%s: data id %v arrived in full form in a chunk that was read, but no alias was ever announced for it", d, g.ID)
						}
					}
				}
			}
		}
		// on Close: final acks, then the close request, nothing afterwards
		seenClose := false
		for _, e := range h.B.Events {
			if e == "close" {
				seenClose = true
			} else if seenClose {
				s.Violate("C04.ack-after-close", "", "%s: %s reached the broker after the close request", d, e)
			}
		}
	}
	for _, x := range s.Broker.Unknown {
		s.Violate("C04.unattributable-frame", "", "broker received %s", x)
	}
}
