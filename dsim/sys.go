package dsim

import (
	"context"
	"errors"
	"fmt"
	"strings"
	"time"

	iscperrors "github.com/aptpod/iscp-go/errors"
	"github.com/aptpod/iscp-go/iscp"
	"github.com/aptpod/iscp-go/message"
	"github.com/google/uuid"
)

// Sys is the system-level harness: the real iscp.Conn with its streams on one
// side, the broker model on the other, the simulated network in between.

type upSpec struct {
	QoS          message.QoS
	Policy       string // none, interval, size, interval-or-size, immediate, default
	Interval     time.Duration
	Size         uint32
	AckInterval  time.Duration
	CloseTimeout time.Duration
	AckTimeout   time.Duration
	PreIDs       []message.DataID
	Session      string
}

func (u upSpec) String() string {
	return fmt.Sprintf("qos=%v policy=%s iv=%v size=%d closeTO=%v ackTO=%v pre=%d", u.QoS, u.Policy, u.Interval, u.Size, u.CloseTimeout, u.AckTimeout, len(u.PreIDs))
}

type writeRec struct {
	Op     *Op
	Up     *upH
	ID     message.DataID
	Points []pt
}

type hookBeforeRec struct {
	Seq    uint32
	Points []pt
	At     time.Duration
}

type hookAfterRec struct {
	Seq  uint32
	Code message.ResultCode
	At   time.Duration
}

type stateSnap struct {
	AtSeq    int64
	At       time.Duration
	Total    uint64
	LastSeq  uint32
	Buffered int
	Accepted int  // points of writes that had returned nil when the snapshot was taken
	Busy     bool // a write/flush on this stream was in flight
}

type upH struct {
	Idx       int
	Spec      upSpec
	U         *iscp.Upstream
	B         *bUp
	Writes    []*writeRec
	Flushes   []*Op
	WriteFlushes []*Op // one goroutine: Write, then Flush
	Before    []hookBeforeRec
	After     []hookAfterRec
	ClosedEv  []string
	ResumedEv []time.Duration
	CloseOp   *Op
	Snaps     []stateSnap
	counter   int
	OpenOp    *Op

	ReuseScratch bool // writes pass a scratch slice that is overwritten after the call returns
	// HookDelay > 0: the application's hooks and event handlers take that long (simulated time), so
	// that events pile up behind them
	HookDelay time.Duration
}

// flushReturn is what the caller of Flush observes through State() right after Flush returned nil.
type flushReturn struct {
	LastSeq  uint32
	Buffered []string // ptKeys of the points still in the visible buffer
}

type readRec struct {
	Op    *Op
	Chunk *iscp.DownstreamChunk
}

type downSpec struct {
	QoS      message.QoS
	Sources  []string
	PreIDs   []message.DataID
	AckFlush time.Duration
}

type downH struct {
	Idx       int
	Spec      downSpec
	D         *iscp.Downstream
	B         *bDown
	Reads     []*Op
	MetaReads []*Op
	ClosedEv  []string
	ResumedEv []time.Duration
	CloseOp   *Op
	OpenOp    *Op
}

type Sys struct {
	s                         *Sim
	Conn                      *iscp.Conn
	ConnOp                    *Op
	Ups                       []*upH
	Downs                     []*downH
	Enc                       iscp.EncodingName
	PingInterval, PingTimeout time.Duration
	ScribbleReads             bool // the application edits every chunk ReadDataPoints gave it (after copying it)
	ReenterOnReconnected      bool // the reconnected handler calls SendMetadata
	CloseOnDisconnected       bool // the disconnected handler calls Conn.Close (first disconnect only)
	HandlerCalls              []*handlerCall
	TokenCalls                int
	TokenFail                 int // next n Token() calls fail
	Tokens                    []string
	Disconnected              []time.Duration
	Reconnected               []time.Duration
	CloseOp                   *Op
}

func newSys(s *Sim, bc BrokerCfg) *Sys {
	s.Net = newNet(s)
	s.Broker = newBroker(s, bc)
	return &Sys{s: s, Enc: iscp.EncodingNameProtobuf}
}

// --- token source / handlers (called from library goroutines) ---

func (y *Sys) Token() (iscp.Token, error) {
	s := y.s
	s.mu.Lock()
	defer s.mu.Unlock()
	y.TokenCalls++
	if y.TokenFail > 0 {
		y.TokenFail--
		s.stats["fault.token-fail"]++
		return "", errors.New("dsim: token source failure")
	}
	tok := fmt.Sprintf("tok-%d", y.TokenCalls)
	y.Tokens = append(y.Tokens, tok)
	return iscp.Token(tok), nil
}

// handlerCall is an API call the application makes from inside one of its connection event handlers.
type handlerCall struct {
	What       string
	Start, End time.Duration
	Timeout    time.Duration
	Returned   bool
	Err        error
	DialsAtEnd int // dial attempts seen when the call returned
}

func (y *Sys) OnDisconnected(*iscp.DisconnectedEvent) {
	y.s.mu.Lock()
	y.Disconnected = append(y.Disconnected, y.s.Now())
	closeNow := y.CloseOnDisconnected && y.Conn != nil && len(y.Disconnected) == 1
	y.s.mu.Unlock()
	if closeNow {
		// the application gives up on the first disconnect: it closes the connection from the handler
		y.callFromHandler("Conn.Close:from-disconnected-handler", 5*time.Second, func(ctx context.Context) error { return y.Conn.Close(ctx) })
	}
}

func (y *Sys) OnReconnected(*iscp.ReconnectedEvent) {
	y.s.mu.Lock()
	y.Reconnected = append(y.Reconnected, y.s.Now())
	reenter := y.ReenterOnReconnected && y.Conn != nil
	y.s.mu.Unlock()
	if reenter {
		// the application re-announces its base time as soon as the connection is back
		y.callFromHandler("SendMetadata:from-reconnected-handler", 2*time.Second, func(ctx context.Context) error {
			return y.Conn.SendMetadata(ctx, &message.BaseTime{SessionID: "sess", Name: "from-reconnected-handler", Priority: 1, ElapsedTime: time.Second, BaseTime: time.Unix(1_700_000_000, 0).UTC()})
		})
	}
}

func (y *Sys) callFromHandler(what string, timeout time.Duration, f func(ctx context.Context) error) {
	hc := &handlerCall{What: what, Timeout: timeout}
	y.s.mu.Lock()
	hc.Start = y.s.Now()
	y.HandlerCalls = append(y.HandlerCalls, hc)
	y.s.stats["env.api-call-from-event-handler"]++
	y.s.mu.Unlock()
	ctx, cancel := context.WithTimeout(context.Background(), timeout)
	err := f(ctx)
	cancel()
	y.s.mu.Lock()
	hc.End, hc.Returned, hc.Err = y.s.Now(), true, err
	hc.DialsAtEnd = y.s.Net.Dials
	y.s.mu.Unlock()
}

// judgeHandlerCalls: a call made from an event handler is bounded by its context like any other.
func (y *Sys) judgeHandlerCalls(rule string) {
	s := y.s
	s.mu.Lock()
	calls := append([]*handlerCall(nil), y.HandlerCalls...)
	now := s.Now()
	s.mu.Unlock()
	for _, hc := range calls {
		s.mu.Lock()
		ret, start, end := hc.Returned, hc.Start, hc.End
		s.mu.Unlock()
		switch {
		case !ret && now-start > hc.Timeout+2*time.Second:
			s.Violate(rule, "victim:"+hc.What, "%s (context with a %v deadline), called by the application from its event handler at %v, has not returned at %v", hc.What, hc.Timeout, start, now)
		case ret && end-start > hc.Timeout+2*time.Second:
			s.Violate(rule, "victim:"+hc.What, "%s (context with a %v deadline), called from an event handler, returned only after %v", hc.What, hc.Timeout, end-start)
		}
	}
}

// --- operations ---

func (y *Sys) connectOp() *Op {
	return &Op{Name: "Connect", Args: string(y.Enc), Run: func(ctx context.Context) (any, error) {
		opts := []iscp.ConnOption{
			iscp.WithConnEncoding(y.Enc),
			iscp.WithConnTokenSource(y),
			iscp.WithConnNodeID("node-self"),
			iscp.WithConnDisconnectedEventHandler(y),
			iscp.WithConnReconnectedEventHandler(y),
		}
		if y.PingInterval != 0 {
			opts = append(opts, iscp.WithConnPingInterval(y.PingInterval))
		}
		if y.PingTimeout != 0 {
			opts = append(opts, iscp.WithConnPingTimeout(y.PingTimeout))
		}
		c, err := iscp.Connect("sim:0", simTransport, opts...)
		if err != nil {
			return nil, err
		}
		y.s.mu.Lock()
		y.Conn = c
		y.s.mu.Unlock()
		return "conn", nil
	}}
}

func (h *upH) HookBefore(id uuid.UUID, c iscp.UpstreamChunk) {
	s := curSim
	rec := hookBeforeRec{Seq: c.SequenceNumber}
	for _, g := range c.DataPointGroups {
		for _, p := range g.DataPoints {
			rec.Points = append(rec.Points, pt{ID: *g.DataID, Elapsed: p.ElapsedTime, Payload: string(p.Payload)})
		}
	}
	s.mu.Lock()
	rec.At = s.Now()
	h.Before = append(h.Before, rec)
	s.mu.Unlock()
	h.slowHook()
}

func (h *upH) slowHook() {
	if h.HookDelay > 0 {
		time.Sleep(h.HookDelay)
	}
}

func (h *upH) HookAfter(id uuid.UUID, r iscp.UpstreamChunkResult) {
	s := curSim
	s.mu.Lock()
	h.After = append(h.After, hookAfterRec{Seq: r.SequenceNumber, Code: r.ResultCode, At: s.Now()})
	s.mu.Unlock()
	h.slowHook()
}

func (h *upH) OnUpstreamClosed(ev *iscp.UpstreamClosedEvent) {
	s := curSim
	s.mu.Lock()
	e := "nil"
	if ev.Err != nil {
		e = ev.Err.Error()
	}
	h.ClosedEv = append(h.ClosedEv, e)
	s.mu.Unlock()
	h.slowHook()
}

func (h *upH) OnUpstreamResumed(ev *iscp.UpstreamResumedEvent) {
	s := curSim
	s.mu.Lock()
	h.ResumedEv = append(h.ResumedEv, s.Now())
	s.mu.Unlock()
}

func (y *Sys) openUpOp(spec upSpec) *Op {
	h := &upH{Idx: len(y.Ups), Spec: spec}
	y.Ups = append(y.Ups, h)
	op := &Op{Name: "OpenUpstream", Args: fmt.Sprintf("u%d %s", h.Idx, spec), Meta: h, Run: func(ctx context.Context) (any, error) {
		opts := []iscp.UpstreamOption{
			iscp.WithUpstreamQoS(spec.QoS),
			iscp.WithUpstreamReceiveAckHooker(h),
			iscp.WithUpstreamSendDataPointsHooker(h),
			iscp.WithUpstreamClosedEventHandler(h),
			iscp.WithUpstreamResumedEventHandler(h),
		}
		switch spec.Policy {
		case "none":
			opts = append(opts, iscp.WithUpstreamFlushPolicyNone())
		case "interval":
			opts = append(opts, iscp.WithUpstreamFlushPolicyIntervalOnly(spec.Interval))
		case "size":
			opts = append(opts, iscp.WithUpstreamFlushPolicyBufferSizeOnly(spec.Size))
		case "interval-or-size":
			opts = append(opts, iscp.WithUpstreamFlushPolicyIntervalOrBufferSize(spec.Interval, spec.Size))
		case "immediate":
			opts = append(opts, iscp.WithUpstreamFlushPolicyImmediately())
		}
		if spec.AckInterval != 0 {
			opts = append(opts, iscp.WithUpstreamAckInterval(spec.AckInterval))
		}
		if spec.CloseTimeout != 0 {
			opts = append(opts, iscp.WithUpstreamCloseTimeout(spec.CloseTimeout))
		}
		if spec.AckTimeout != 0 {
			opts = append(opts, iscp.WithUpstreamAckTimeout(spec.AckTimeout))
		}
		if len(spec.PreIDs) > 0 {
			ids := make([]*message.DataID, len(spec.PreIDs))
			for i := range spec.PreIDs {
				id := spec.PreIDs[i]
				ids[i] = &id
			}
			opts = append(opts, iscp.WithUpstreamDataIDs(ids))
		}
		sess := spec.Session
		if sess == "" {
			sess = fmt.Sprintf("session-%d", h.Idx)
		}
		u, err := y.Conn.OpenUpstream(ctx, sess, opts...)
		if err != nil {
			return nil, err
		}
		return u, nil
	}}
	op.OnDone = func(op *Op) {
		// assigned by the scheduler at harvest time, so that the handle is scheduler-owned state
		if u, ok := op.Res.(*iscp.Upstream); ok && u != nil {
			h.U = u
			h.B = y.s.Broker.upByID(h.U.ID)
		}
	}
	h.OpenOp = op
	return op
}

// nextPoints builds n unique points for data id `id` on stream h.
func (h *upH) nextPoints(task int, id message.DataID, sizes []int) ([]*message.DataPoint, []pt) {
	var dps []*message.DataPoint
	var pts []pt
	for _, sz := range sizes {
		h.counter++
		tag := fmt.Sprintf("u%d|t%d|%s|%d|", h.Idx, task, id.Name, h.counter)
		payload := tag
		if sz == 0 {
			payload = ""
		} else if sz < len(tag) {
			// keep uniqueness through the elapsed time when the payload is short
			payload = tag[len(tag)-sz:]
			if sz < 6 {
				payload = strings.Repeat("x", sz)
			}
		} else {
			payload = tag + strings.Repeat("p", sz-len(tag))
		}
		el := time.Duration(h.counter) * time.Microsecond
		dps = append(dps, &message.DataPoint{ElapsedTime: el, Payload: []byte(payload)})
		pts = append(pts, pt{ID: id, Elapsed: el, Payload: payload})
	}
	return dps, pts
}

func (y *Sys) writeOp(h *upH, task int, id message.DataID, sizes []int) *Op {
	dps, pts := h.nextPoints(task, id, sizes)
	rec := &writeRec{Up: h, ID: id, Points: pts}
	op := &Op{Name: "Write", Args: fmt.Sprintf("u%d %s n=%d sizes=%v", h.Idx, id.Name, len(sizes), sizes), Meta: rec, Run: func(ctx context.Context) (any, error) {
		idc := id
		if !h.ReuseScratch {
			return nil, h.U.WriteDataPoints(ctx, &idc, dps...)
		}
		// the application passes a scratch slice with spare capacity and reuses it as soon as the
		// call has returned: what was accepted must not depend on the caller's slice any more
		sc := make([]*message.DataPoint, len(dps), len(dps)+8)
		copy(sc, dps)
		err := h.U.WriteDataPoints(ctx, &idc, sc...)
		for i := range sc {
			sc[i] = &message.DataPoint{ElapsedTime: 999 * time.Hour, Payload: []byte("SCRATCH-SLICE-REUSED-BY-APPLICATION")}
		}
		return nil, err
	}}
	rec.Op = op
	h.Writes = append(h.Writes, rec)
	return op
}

// writeFlushRes: what one application goroutine saw when it wrote points and then flushed.
type writeFlushRes struct {
	FlushErr         error
	LastSeq          uint32
	OwnStillBuffered []string // its own points that State() still showed in the buffer after Flush had returned nil
}

// writeFlushOp: one goroutine writes and then flushes (the common "send this now" idiom).
func (y *Sys) writeFlushOp(h *upH, task int, id message.DataID, sizes []int) *Op {
	dps, pts := h.nextPoints(task, id, sizes)
	rec := &writeRec{Up: h, ID: id, Points: pts}
	op := &Op{Name: "Write+Flush", Args: fmt.Sprintf("u%d %s n=%d sizes=%v", h.Idx, id.Name, len(sizes), sizes), Meta: rec, Run: func(ctx context.Context) (any, error) {
		idc := id
		if err := h.U.WriteDataPoints(ctx, &idc, dps...); err != nil {
			return nil, err // the write was refused: nothing was accepted
		}
		res := &writeFlushRes{}
		if err := h.U.Flush(ctx); err != nil {
			res.FlushErr = err
			return res, nil
		}
		st := h.U.State()
		res.LastSeq = st.LastIssuedSequenceNumber
		own := map[string]bool{}
		for _, p := range pts {
			own[ptKey(p)] = true
		}
		for _, g := range st.DataPointsBuffer {
			for _, dp := range g.DataPoints {
				if k := ptKey(pt{ID: *g.DataID, Elapsed: dp.ElapsedTime, Payload: string(dp.Payload)}); own[k] {
					res.OwnStillBuffered = append(res.OwnStillBuffered, k)
				}
			}
		}
		return res, nil
	}}
	rec.Op = op
	h.Writes = append(h.Writes, rec)
	h.WriteFlushes = append(h.WriteFlushes, op)
	return op
}

func (y *Sys) flushOp(h *upH) *Op {
	op := &Op{Name: "Flush", Args: fmt.Sprintf("u%d", h.Idx), Meta: h, Run: func(ctx context.Context) (any, error) {
		if err := h.U.Flush(ctx); err != nil {
			return nil, err
		}
		// what the caller can observe the moment Flush has returned nil
		st := h.U.State()
		fr := &flushReturn{LastSeq: st.LastIssuedSequenceNumber}
		for _, g := range st.DataPointsBuffer {
			for _, dp := range g.DataPoints {
				fr.Buffered = append(fr.Buffered, ptKey(pt{ID: *g.DataID, Elapsed: dp.ElapsedTime, Payload: string(dp.Payload)}))
			}
		}
		return fr, nil
	}}
	h.Flushes = append(h.Flushes, op)
	return op
}

func (y *Sys) closeUpOp(h *upH) *Op {
	op := &Op{Name: "Upstream.Close", Args: fmt.Sprintf("u%d", h.Idx), Meta: h, Run: func(ctx context.Context) (any, error) {
		return nil, h.U.Close(ctx)
	}}
	if h.CloseOp == nil {
		h.CloseOp = op
	}
	return op
}

func (y *Sys) closeConnOp() *Op {
	op := &Op{Name: "Conn.Close", Run: func(ctx context.Context) (any, error) {
		return nil, y.Conn.Close(ctx)
	}}
	if y.CloseOp == nil {
		y.CloseOp = op
	}
	return op
}

// snapshot records Upstream.State(). State() is called on a helper goroutine so
// that a lock held for ever inside the library cannot wedge the scheduler.
func (y *Sys) snapshot(h *upH) stateSnap {
	s := y.s
	var st *iscp.UpstreamState
	done := false
	go func() {
		x := h.U.State()
		s.mu.Lock()
		st, done = x, true
		s.mu.Unlock()
	}()
	s.Wait()
	s.mu.Lock()
	ok := done
	s.mu.Unlock()
	if !ok {
		s.Violate(s.Prop+".state-blocked", "Upstream.State", "Upstream.State() does not return while the library is quiescent")
		return stateSnap{}
	}
	sn := stateSnap{AtSeq: s.seq, At: s.Now(), Total: st.TotalDataPoints, LastSeq: st.LastIssuedSequenceNumber}
	for _, g := range st.DataPointsBuffer {
		sn.Buffered += len(g.DataPoints)
	}
	for _, w := range h.Writes {
		if w.Op.harvested && w.Op.Err == nil {
			sn.Accepted += len(w.Points)
		}
		if !w.Op.harvested {
			sn.Busy = true
		}
	}
	for _, f := range h.Flushes {
		if !f.harvested {
			sn.Busy = true
		}
	}
	h.Snaps = append(h.Snaps, sn)
	return sn
}

// --- network helpers (root goroutine) ---

// allLinks is a snapshot of every link dialled so far (library goroutines append under s.mu).
func (y *Sys) allLinks() []*Link {
	y.s.mu.Lock()
	defer y.s.mu.Unlock()
	return append([]*Link(nil), y.s.Net.Links...)
}

func (y *Sys) aliveLinks() []*Link {
	y.s.mu.Lock()
	links := append([]*Link(nil), y.s.Net.Links...)
	y.s.mu.Unlock()
	var out []*Link
	for _, l := range links {
		if l.Alive() {
			out = append(out, l)
		}
	}
	return out
}

// Pump runs a fast FIFO network until nothing moves any more.
func (y *Sys) Pump() {
	s := y.s
	for round := 0; round < 10000; round++ {
		moved := 0
		for _, l := range y.allLinks() {
			s.mu.Lock()
			dead := l.isDead
			s.mu.Unlock()
			if l.Alive() {
				moved += l.IngestAll()
			} else if !dead {
				// closed by the client: the broker still sees what was written before
				moved += l.IngestAll()
			}
		}
		moved += s.Broker.ReleaseAll()
		for _, l := range y.aliveLinks() {
			moved += l.DeliverAll()
		}
		s.Wait()
		s.Harvest()
		if moved == 0 {
			return
		}
	}
	s.HarnessError("pump did not converge")
}

// PumpUntil pumps and advances the clock in small steps until cond holds or the budget is used.
func (y *Sys) PumpUntil(cond func() bool, step time.Duration, budget time.Duration) bool {
	y.Pump()
	var spent time.Duration
	for !cond() {
		if spent >= budget {
			return false
		}
		y.s.Advance(step)
		spent += step
		y.Pump()
	}
	return true
}

// errClass classifies an API error for the oracles.
func errClass(err error) string {
	switch {
	case err == nil:
		return "nil"
	case errors.Is(err, context.Canceled):
		return "ctx-canceled"
	case errors.Is(err, context.DeadlineExceeded):
		return "ctx-deadline"
	case errors.Is(err, iscperrors.ErrStreamClosed):
		return "stream-closed"
	case errors.Is(err, iscperrors.ErrConnectionClosed):
		return "conn-closed"
	case errors.Is(err, iscperrors.ErrISCP):
		return "iscp"
	}
	return "other"
}

func dataID(i int) message.DataID {
	if s := curSim; s != nil && s.RaceMode && s.T != nil {
		// under the race detector every run uses data ids of its own, so that process-wide tables
		// keyed by content are written to in every run, not only in the first one of the process
		return message.DataID{Name: fmt.Sprintf("d%d-r%d", i, s.T.Seed), Type: "ty"}
	}
	return message.DataID{Name: fmt.Sprintf("d%d", i), Type: "ty"}
}

// --- downstream, metadata and call operations ---

func (h *downH) OnDownstreamClosed(ev *iscp.DownstreamClosedEvent) {
	s := curSim
	s.mu.Lock()
	e := "nil"
	if ev.Err != nil {
		e = ev.Err.Error()
	}
	h.ClosedEv = append(h.ClosedEv, e)
	s.mu.Unlock()
}

func (h *downH) OnDownstreamResumed(ev *iscp.DownstreamResumedEvent) {
	s := curSim
	s.mu.Lock()
	h.ResumedEv = append(h.ResumedEv, s.Now())
	s.mu.Unlock()
}

func (y *Sys) openDownOp(spec downSpec) *Op {
	h := &downH{Idx: len(y.Downs), Spec: spec}
	y.Downs = append(y.Downs, h)
	op := &Op{Name: "OpenDownstream", Args: fmt.Sprintf("d%d qos=%v sources=%v pre=%d ackflush=%v", h.Idx, spec.QoS, spec.Sources, len(spec.PreIDs), spec.AckFlush), Meta: h, Run: func(ctx context.Context) (any, error) {
		var filters []*message.DownstreamFilter
		for _, src := range spec.Sources {
			filters = append(filters, message.NewDownstreamFilterAllFor(src))
		}
		opts := []iscp.DownstreamOption{
			iscp.WithDownstreamQoS(spec.QoS),
			iscp.WithDownstreamClosedEventHandler(h),
			iscp.WithDownstreamResumedEventHandler(h),
		}
		if spec.AckFlush != 0 {
			opts = append(opts, iscp.WithDownstreamAckFlushInterval(spec.AckFlush))
		}
		if len(spec.PreIDs) > 0 {
			ids := make([]*message.DataID, len(spec.PreIDs))
			for i := range spec.PreIDs {
				id := spec.PreIDs[i]
				ids[i] = &id
			}
			opts = append(opts, iscp.WithDownstreamDataIDs(ids))
		}
		d, err := y.Conn.OpenDownstream(ctx, filters, opts...)
		if err != nil {
			return nil, err
		}
		return d, nil
	}}
	op.OnDone = func(op *Op) {
		if d, ok := op.Res.(*iscp.Downstream); ok && d != nil {
			h.D = d
			h.B = y.s.Broker.downByID(h.D.ID)
		}
	}
	h.OpenOp = op
	return op
}

func (y *Sys) readOp(h *downH) *Op {
	op := &Op{Name: "ReadDataPoints", Args: fmt.Sprintf("d%d", h.Idx), Meta: h, Run: func(ctx context.Context) (any, error) {
		c, err := h.D.ReadDataPoints(ctx)
		if err != nil {
			return nil, err
		}
		if y.ScribbleReads && c != nil {
			// the application keeps a copy and then edits what it was given (it owns the returned
			// value); later reads must not be affected by that
			kept := copyDownChunk(c)
			scribbleDownChunk(c)
			y.s.Stat("env.returned-chunk-edited-by-application")
			return kept, nil
		}
		return c, nil
	}}
	h.Reads = append(h.Reads, op)
	return op
}

func copyDownChunk(c *iscp.DownstreamChunk) *iscp.DownstreamChunk {
	k := &iscp.DownstreamChunk{SequenceNumber: c.SequenceNumber}
	if c.UpstreamInfo != nil {
		u := *c.UpstreamInfo
		k.UpstreamInfo = &u
	}
	for _, g := range c.DataPointGroups {
		if g == nil {
			k.DataPointGroups = append(k.DataPointGroups, nil)
			continue
		}
		ng := &iscp.DataPointGroup{}
		if g.DataID != nil {
			id := *g.DataID
			ng.DataID = &id
		}
		for _, p := range g.DataPoints {
			if p == nil {
				ng.DataPoints = append(ng.DataPoints, nil)
				continue
			}
			ng.DataPoints = append(ng.DataPoints, &message.DataPoint{ElapsedTime: p.ElapsedTime, Payload: append([]byte(nil), p.Payload...)})
		}
		k.DataPointGroups = append(k.DataPointGroups, ng)
	}
	return k
}

func scribbleDownChunk(c *iscp.DownstreamChunk) {
	if c.UpstreamInfo != nil {
		c.UpstreamInfo.SessionID = "edited-by-application"
		c.UpstreamInfo.SourceNodeID = "edited-by-application"
		c.UpstreamInfo.StreamID = uuid.UUID{}
	}
	for _, g := range c.DataPointGroups {
		if g == nil {
			continue
		}
		if g.DataID != nil {
			g.DataID.Name = "edited/" + g.DataID.Name
			g.DataID.Type = "edited"
		}
		for _, p := range g.DataPoints {
			if p != nil {
				p.ElapsedTime = -1
				for i := range p.Payload {
					p.Payload[i] = '#'
				}
			}
		}
	}
}

func (y *Sys) readMetaOp(h *downH) *Op {
	op := &Op{Name: "ReadMetadata", Args: fmt.Sprintf("d%d", h.Idx), Meta: h, Run: func(ctx context.Context) (any, error) {
		m, err := h.D.ReadMetadata(ctx)
		if err != nil {
			return nil, err
		}
		return m, nil
	}}
	h.MetaReads = append(h.MetaReads, op)
	return op
}

func (y *Sys) closeDownOp(h *downH) *Op {
	op := &Op{Name: "Downstream.Close", Args: fmt.Sprintf("d%d", h.Idx), Meta: h, Run: func(ctx context.Context) (any, error) {
		return nil, h.D.Close(ctx)
	}}
	if h.CloseOp == nil {
		h.CloseOp = op
	}
	return op
}

type metaRec struct {
	Op   *Op
	Name string
}

func (y *Sys) sendMetaOp(name string) *Op {
	rec := &metaRec{Name: name}
	op := &Op{Name: "SendMetadata", Args: name, Meta: rec, Run: func(ctx context.Context) (any, error) {
		return nil, y.Conn.SendMetadata(ctx, &message.BaseTime{SessionID: "sess", Name: name, Priority: 1, ElapsedTime: time.Second, BaseTime: time.Unix(1_700_000_000, 0).UTC()})
	}}
	rec.Op = op
	return op
}

type callRec struct {
	Op      *Op
	Name    string
	Payload string
	Kind    string // call, reply, call-wait
}

func (y *Sys) sendCallOp(kind, name, payload, reqCallID string) *Op {
	rec := &callRec{Name: name, Payload: payload, Kind: kind}
	op := &Op{Name: "Send" + kind, Args: name, Meta: rec, Run: func(ctx context.Context) (any, error) {
		switch kind {
		case "call":
			return y.Conn.SendCall(ctx, &iscp.UpstreamCall{DestinationNodeID: "peer", Name: name, Type: "t", Payload: []byte(payload)})
		case "reply":
			return y.Conn.SendReplyCall(ctx, &iscp.UpstreamReplyCall{RequestCallID: reqCallID, DestinationNodeID: "peer", Name: name, Type: "t", Payload: []byte(payload)})
		default:
			r, err := y.Conn.SendCallAndWaitReplayCall(ctx, &iscp.UpstreamCall{DestinationNodeID: "peer", Name: name, Type: "t", Payload: []byte(payload)})
			if err != nil {
				return nil, err
			}
			return r, nil
		}
	}}
	rec.Op = op
	return op
}

func (y *Sys) recvCallOp(reply bool) *Op {
	if reply {
		return &Op{Name: "ReceiveReplyCall", Run: func(ctx context.Context) (any, error) {
			r, err := y.Conn.ReceiveReplyCall(ctx)
			if err != nil {
				return nil, err
			}
			return r, nil
		}}
	}
	return &Op{Name: "ReceiveCall", Run: func(ctx context.Context) (any, error) {
		r, err := y.Conn.ReceiveCall(ctx)
		if err != nil {
			return nil, err
		}
		return r, nil
	}}
}

// flushLinks models a network without transit delay: everything written is seen by the
// peer, everything the broker already decided to send is delivered. Broker decisions that
// are still pending (manual replies) stay pending.
func (y *Sys) flushLinks() int {
	n := 0
	for _, l := range y.allLinks() {
		y.s.mu.Lock()
		dead := l.isDead
		y.s.mu.Unlock()
		if !dead {
			n += l.IngestAll()
		}
	}
	for _, l := range y.aliveLinks() {
		n += l.DeliverAll()
	}
	y.s.Wait()
	y.s.Harvest()
	return n
}

// Advance moves the clock by d in quanta small enough that keepalive pings are always
// answered in time on a healthy link (links are flushed between quanta).
func (y *Sys) Advance(d time.Duration) {
	q := y.PingTimeout / 2
	if y.PingTimeout == 0 {
		q = 500 * time.Millisecond
	}
	for d > 0 {
		for y.flushLinks() > 0 {
		}
		step := d
		if step > q {
			step = q
		}
		y.s.Advance(step)
		d -= step
	}
	for y.flushLinks() > 0 {
	}
}
