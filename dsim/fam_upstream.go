package dsim

import (
	"fmt"
	"sort"
	"time"

	"github.com/aptpod/iscp-go/iscp"
	"github.com/aptpod/iscp-go/message"
)

// Upstream family on a connection that stays up: C01 (delivery/accounting) and
// C20 (flush barrier, flush policies, state snapshots).

func init() {
	scenarios["C01"] = func(s *Sim) { runUpstreamFamily(s, "C01") }
	scenarios["C20"] = func(s *Sim) { runUpstreamFamily(s, "C20") }
}

var payloadSizes = []int{8, 0, 1, 24, 100, 1000, 65536}

func drawUpSpec(s *Sim, prop string) upSpec {
	t := s.T
	sp := upSpec{}
	sp.QoS = Pick(t, "qos", message.QoSUnreliable, message.QoSReliable, message.QoSPartial)
	sp.Policy = Pick(t, "policy", "default", "none", "interval", "size", "interval-or-size", "immediate")
	sp.Interval = Pick(t, "interval", 100*time.Millisecond, 10*time.Millisecond, time.Second, 5*time.Second)
	sp.Size = Pick(t, "size", uint32(100), 0, 1, 24, 999, 1000, 5000)
	sp.AckInterval = Pick(t, "ackiv", time.Duration(0), 10*time.Millisecond, time.Second)
	sp.CloseTimeout = Pick(t, "closeto", time.Duration(0), time.Second, time.Minute)
	if prop == "C01" {
		sp.AckTimeout = Pick(t, "ackto", time.Duration(0), 0, time.Hour, 20*time.Millisecond, 2*time.Second)
	}
	npre := Pick(t, "npre", 0, 0, 1, 3)
	for i := 0; i < npre; i++ {
		sp.PreIDs = append(sp.PreIDs, dataID(i))
	}
	return sp
}

func runUpstreamFamily(s *Sim, prop string) {
	t := s.T
	s.Family = "upstream-steady"
	bc := BrokerCfg{
		AutoReq:        !t.Bool("manual-req", 1, 8),
		AutoAck:        !t.Bool("manual-ack", 1, 2),
		AutoPong:       true,
		AliasAtOpen:    t.Bool("alias-at-open", 1, 2),
		AliasInAck:     t.Bool("alias-in-ack", 1, 2),
		FailCodePermil: Pick(t, "failcodes", 0, 0, 100, 500),
	}
	// a second generation of streams on the same connection: after the first ones are closed another
	// upstream is opened, and the broker gives it a stream id alias that a closed one had
	secondGen := prop == "C01" && t.Bool("second-generation", 1, 4)
	bc.ReuseAliases = secondGen
	// stream id aliases numbered from 0: alias 0 is an alias like any other
	bc.AliasFromZero = prop == "C01" && t.Bool("alias-from-zero", 1, 3)
	y := newSys(s, bc)
	if t.Bool("json", 1, 4) {
		y.Enc = iscp.EncodingNameJSON
	}
	// the connection must stay up (quantifier of C01/C20): keepalive is exercised by C15, here it
	// is configured so that it cannot fire within the simulated time of a run
	y.PingInterval, y.PingTimeout = time.Hour, time.Hour
	nUp := Pick(t, "nup", 1, 1, 2)
	nWriters := Pick(t, "nwriters", 1, 2, 3)
	withFlusher := t.Bool("flusher", 1, 2)
	nTasks := nWriters
	if withFlusher {
		nTasks++
	}
	flusher := nTasks - 1
	s.yieldDensity = Pick(t, "yield", 0, 0, 20, 200)
	maxSteps := Pick(t, "steps", 40, 15, 80, 150)
	if s.Tier == "thorough" {
		maxSteps *= Pick(t, "steps-x", 1, 2, 4)
	}
	nIDs := Pick(t, "nids", 2, 1, 4, 12)
	dupAcks := t.Bool("dup-acks", 1, 4)
	fastNet := Pick(t, "net", 4, 1, 12) // weight of the "pump" action
	cancelWrites := t.Bool("cancel-writes", 1, 6)
	// several operations issued back to back, so that writers, flusher and the flush loop are
	// runnable at the same time and are interleaved by the seeded yield points only
	burst := Pick(t, "burst", 0, 0, 0, 2, 4)
	raceClose := t.Bool("race-close", 1, 3)
	reuseScratch := t.Bool("reuse-scratch", 1, 3)
	closer := nTasks

	s.NewTasks(nTasks + 1)
	// connect
	s.Start(0, y.connectOp())
	s.Wait()
	y.Pump()
	if y.ConnOp = s.ops[0]; !y.ConnOp.harvested || y.ConnOp.Err != nil {
		s.HarnessError("connect did not succeed: %v", y.ConnOp.Err)
		return
	}
	for i := 0; i < nUp; i++ {
		op := s.Start(0, y.openUpOp(drawUpSpec(s, prop)))
		s.Wait()
		y.Pump()
		if !op.harvested || op.Err != nil {
			s.HarnessError("open upstream did not succeed: %v", op.Err)
			return
		}
	}
	hookDelay := Pick(t, "hook-delay", time.Duration(0), 0, 0, time.Millisecond, 5*time.Millisecond)
	for _, h := range y.Ups {
		h.ReuseScratch = reuseScratch
		h.HookDelay = hookDelay
	}
	if hookDelay > 0 {
		s.Stat("env.slow-application-hooks")
	}
	s.BurstMax = burst

	// C20: the connection is lost once in the middle and comes back (with nothing buffered and nothing
	// in flight at that moment, so that no QoS may lose anything): the flush policies keep their
	// promises on the resumed stream
	midCut := prop == "C20" && t.Bool("mid-cut", 1, 5)
	// main loop
	for step := 0; step < maxSteps; step++ {
		if midCut && step == maxSteps/2 {
			midCut = false
			s.BurstMax, s.burstLeft = 0, 0
			s.Do("sync", func() {})
			if !y.PumpUntil(func() bool { return !s.AnyBusy() }, 100*time.Millisecond, 30*time.Second) {
				s.Stat("c20.mid-cut-skipped")
			} else {
				ok := true
				for _, h := range y.Ups {
					op := s.Start(0, y.flushOp(h))
					s.Wait()
					y.Pump()
					ok = ok && op.harvested && op.Err == nil
				}
				if ok {
					for _, l := range y.aliveLinks() {
						l.Kill(errClosed, errClosed)
					}
					s.Stat("fault.cut")
					s.Logf("fault: cut (nothing buffered, nothing in flight)")
					// keepalive is out of reach in this family: a request makes the client notice
					probe := s.Start(0, y.sendMetaOp("after-mid-cut"))
					s.Wait()
					_ = probe
					resumed := func() bool {
						s.mu.Lock()
						defer s.mu.Unlock()
						for _, h := range y.Ups {
							if len(h.ResumedEv) == 0 {
								return false
							}
						}
						return true
					}
					if !y.PumpUntil(resumed, 100*time.Millisecond, 60*time.Second) {
						s.Violate("C20.stream-not-resumed", "", "the streams did not resume within 60 s after a clean cut on a broker that answers everything")
						return
					}
					s.Stat("env.resumed-mid-run")
				}
			}
			s.BurstMax = burst
		}
		var acts []Action
		for ti := 0; ti < nWriters; ti++ {
			ti := ti
			if !s.Idle(ti) {
				if op := s.Busy(ti); cancelWrites && op.CtxKind == "cancel" && op.CancelT < 0 {
					acts = append(acts, Action{Name: fmt.Sprintf("cancel op%d", op.ID), W: 2, Do: func() { s.CancelOp(op) }})
				}
				continue
			}
			acts = append(acts, Action{Name: fmt.Sprintf("write t%d", ti), W: 10, Do: func() {
				h := y.Ups[t.Choose("w-up", len(y.Ups))]
				id := dataID(t.Choose("w-id", nIDs))
				n := Pick(t, "w-n", 1, 1, 2, 0, 5, 8)
				sizes := make([]int, n)
				for i := range sizes {
					sizes[i] = payloadSizes[t.Choose("w-size", len(payloadSizes))]
				}
				if prop == "C20" && n > 0 && t.Bool("w-then-flush", 1, 6) {
					// the same goroutine flushes as soon as its write has returned (while other goroutines
					// may be flushing too): when its Flush returns nil, its own points have been cut
					s.Start(ti, y.writeFlushOp(h, ti, id, sizes))
					s.Stat("env.write-then-flush-by-one-goroutine")
					return
				}
				op := y.writeOp(h, ti, id, sizes)
				if cancelWrites && t.Bool("w-cancelable", 1, 4) {
					op.CtxKind = "cancel"
					if t.Bool("w-cancel-at-yield", 1, 3) {
						op.CancelAtYield = 1 + t.Choose("w-yield-k", 40)
					}
				}
				s.Start(ti, op)
			}})
		}
		if withFlusher && s.Idle(flusher) {
			acts = append(acts, Action{Name: "flush", W: 3, Do: func() {
				h := y.Ups[t.Choose("f-up", len(y.Ups))]
				op := y.flushOp(h)
				if t.Bool("f-cancelable", 1, 6) {
					op.CtxKind = "deadline"
					op.Timeout = Pick(t, "f-to", time.Millisecond, 50*time.Millisecond)
				} else if t.Bool("f-cancel-at-yield", 1, 5) {
					// the caller gives up at an arbitrary instant inside the call
					op.CtxKind = "cancel"
					op.CancelAtYield = 1 + t.Choose("f-yield-k", 60)
				}
				s.Start(flusher, op)
			}})
		}
		acts = append(acts, Action{Name: "snapshot", W: 2, Do: func() {
			y.snapshot(y.Ups[t.Choose("s-up", len(y.Ups))])
		}})
		for _, l := range y.aliveLinks() {
			l := l
			if l.PendingC2B() > 0 {
				acts = append(acts, Action{Name: "ingest " + l.String(), W: 6, Do: func() { l.IngestOne() }})
			}
			if l.PendingB2C() > 0 {
				acts = append(acts, Action{Name: "deliver " + l.String(), W: 6, Do: func() { l.DeliverOne() }})
			}
		}
		if n := len(s.Broker.Pend); n > 0 {
			acts = append(acts, Action{Name: "release", W: 6, Do: func() { y.releaseOne() }})
		}
		if dupAcks {
			acts = append(acts, Action{Name: "dup-ack", W: 1, Do: func() { y.dupAck() }})
		}
		acts = append(acts, Action{Name: "pump", W: fastNet, Do: func() { y.Pump() }})
		acts = append(acts, Action{Name: "advance", W: 4, Do: func() {
			s.Advance(Pick(t, "adv", time.Millisecond, 10*time.Millisecond, 100*time.Millisecond, 99*time.Millisecond, time.Second))
		}})
		s.Step(acts)
	}

	s.BurstMax, s.burstLeft = 0, 0
	s.Do("sync", func() {})
	// settle: let every write and flush return
	for _, tk := range s.tasks {
		if op := tk.busy; op != nil && op.CtxKind == "cancel" && t.Bool("settle-cancel", 1, 2) {
			s.CancelOp(op)
			s.Wait()
			s.Harvest()
		}
	}
	// writes and flushes do not need acks to return: in half of the runs the acks that are still
	// withheld stay withheld until Close is in progress (Close must then wait for them, in
	// whatever order they come)
	keepAcksPending := prop == "C01" && t.Bool("acks-pending-at-close", 1, 2)
	if keepAcksPending {
		for i := 0; i < 300 && s.AnyBusy(); i++ {
			y.flushLinks()
			for _, p := range append([]*pend(nil), s.Broker.Pend...) {
				if p.Kind != "ack" {
					s.Broker.Release(p, nil)
				}
			}
			y.flushLinks()
			if s.AnyBusy() {
				s.Advance(100 * time.Millisecond)
			}
		}
		// optionally acknowledge only the newest chunks first (out of order across Close)
		if n := len(s.Broker.Pend); n > 0 && t.Bool("ack-newest-first", 1, 2) {
			k := 1 + t.Choose("ack-newest-k", n)
			for i := 0; i < k && len(s.Broker.Pend) > 0; i++ {
				s.Broker.Release(s.Broker.Pend[len(s.Broker.Pend)-1], nil)
			}
			y.flushLinks()
			s.Stat("env.newest-acked-before-close")
		}
	}
	if s.AnyBusy() || !keepAcksPending {
		if !y.PumpUntil(func() bool { return !s.AnyBusy() }, 100*time.Millisecond, 30*time.Second) {
			s.Violate(prop+".op-stuck", "settle", "write/flush still blocked 30s after the last operation on a healthy connection: %s", busyOps(s))
			return
		}
	}
	// hooks far slower than the event rate: a few hundred chunks are sent and acknowledged while the first
	// hook calls are still running, so that hundreds of notifications wait behind them; each is delivered once
	if prop == "C01" && hookDelay > 0 && !keepAcksPending && s.Idle(0) && t.Bool("notification-backlog", 1, 3) {
		h := y.Ups[t.Choose("backlog-up", len(y.Ups))]
		nb := Pick(t, "backlog-chunks", 150, 200, 300)
		for k := 0; k < nb && s.Idle(0); k++ {
			s.Start(0, y.writeFlushOp(h, 0, dataID(k%nIDs), []int{8}))
			s.Wait()
			y.flushLinks()
			s.Harvest()
		}
		s.StatN("env.chunks-sent-while-hooks-lag", nb)
		y.PumpUntil(func() bool { return !s.AnyBusy() }, 100*time.Millisecond, 30*time.Second)
		y.Advance(time.Duration(4*nb) * hookDelay)
		y.Pump()
	}
	// final explicit flush barrier for C20 (no concurrent writers now)
	if prop == "C20" {
		for _, h := range y.Ups {
			op := s.Start(0, y.flushOp(h))
			s.Wait()
			y.Pump()
			if !op.harvested {
				s.Violate("C20.flush-stuck", "final", "Flush did not return on a healthy connection")
				return
			}
			sn := y.snapshot(h)
			op.Meta = &flushBarrier{h: h, snap: sn}
		}
	}
	// close streams while the network keeps making random progress (in either order: what closing one
	// stream tears down must not be something another one still uses)
	closeOrder := append([]*upH(nil), y.Ups...)
	if len(closeOrder) > 1 && t.Bool("close-in-reverse-order", 1, 2) {
		for i, j := 0, len(closeOrder)-1; i < j; i, j = i+1, j-1 {
			closeOrder[i], closeOrder[j] = closeOrder[j], closeOrder[i]
		}
	}
	for _, h := range closeOrder {
		h := h
		var op *Op
		if raceClose {
			// writers (and the flusher) call into the stream at the same time as Close: whatever a
			// write returns, a nil result is a promise that the point is delivered and counted
			s.Stat("env.writes-racing-close")
			closeFirst := t.Bool("rc-close-first", 1, 3)
			if closeFirst {
				op = s.Start(closer, y.closeUpOp(h))
			}
			for ti := 0; ti < nTasks; ti++ {
				if !s.Idle(ti) || !t.Bool("rc-task", 2, 3) {
					continue
				}
				if withFlusher && ti == flusher {
					s.Start(ti, y.flushOp(h))
					continue
				}
				n := Pick(t, "rc-n", 1, 1, 2, 5)
				sizes := make([]int, n)
				for i := range sizes {
					sizes[i] = payloadSizes[t.Choose("w-size", len(payloadSizes))]
				}
				s.Start(ti, y.writeOp(h, ti, dataID(t.Choose("w-id", nIDs)), sizes))
			}
			if !closeFirst {
				op = s.Start(closer, y.closeUpOp(h))
			}
		} else {
			op = s.Start(0, y.closeUpOp(h))
		}
		s.Wait()
		for i := 0; i < 60 && !op.harvested; i++ {
			var acts []Action
			for _, l := range y.aliveLinks() {
				l := l
				if l.PendingC2B() > 0 {
					acts = append(acts, Action{Name: "ingest " + l.String(), W: 6, Do: func() { l.IngestOne() }})
				}
				if l.PendingB2C() > 0 {
					acts = append(acts, Action{Name: "deliver " + l.String(), W: 6, Do: func() { l.DeliverOne() }})
				}
			}
			if len(s.Broker.Pend) > 0 {
				acts = append(acts, Action{Name: "release", W: 6, Do: func() { y.releaseOne() }})
			}
			if dupAcks {
				acts = append(acts, Action{Name: "dup-ack", W: 1, Do: func() { y.dupAck() }})
			}
			acts = append(acts, Action{Name: "pump", W: 3, Do: func() { y.Pump() }})
			acts = append(acts, Action{Name: "advance", W: 1, Do: func() { s.Advance(time.Millisecond) }})
			s.Step(acts)
		}
		if !op.harvested {
			ok := y.PumpUntil(func() bool { return op.harvested }, 100*time.Millisecond, 90*time.Second)
			if !ok {
				s.Violate(prop+".close-stuck", "close", "Upstream.Close still blocked 90s after the broker answered everything")
				return
			}
		}
		// what the application can observe the moment Close has returned
		closeSeen := &closeView{allAcked: y.allAckedAndDelivered(h), after: append([]hookAfterRec(nil), h.After...), before: len(h.Before), elapsed: op.ReturnT - op.InvokeT}
		for _, r := range h.Before {
			closeSeen.cutSeqs = append(closeSeen.cutSeqs, r.Seq)
		}
		op.Meta = closeSeen
	}
	y.Pump()
	if secondGen && !s.AnyBusy() {
		s.Stat("env.second-generation-upstream")
		op := s.Start(0, y.openUpOp(drawUpSpec(s, prop)))
		s.Wait()
		y.Pump()
		if op.harvested && op.Err == nil {
			h := y.Ups[len(y.Ups)-1]
			h.ReuseScratch, h.HookDelay = reuseScratch, hookDelay
			for k := 0; k < 3; k++ {
				w := s.Start(0, y.writeOp(h, 0, dataID(t.Choose("w-id", nIDs)), []int{8, 24}))
				s.Wait()
				y.Pump()
				if !w.harvested {
					y.PumpUntil(func() bool { return w.harvested }, 100*time.Millisecond, 10*time.Second)
				}
			}
			f := s.Start(0, y.flushOp(h))
			s.Wait()
			y.Pump()
			if !f.harvested {
				y.PumpUntil(func() bool { return f.harvested }, 100*time.Millisecond, 10*time.Second)
			}
			cl := s.Start(0, y.closeUpOp(h))
			s.Wait()
			if !y.PumpUntil(func() bool { return cl.harvested }, 100*time.Millisecond, 90*time.Second) {
				s.Violate(prop+".close-stuck", "second-generation", "Upstream.Close of a stream opened after others had been closed is still blocked 90s after the broker answered everything")
				return
			}
			closeSeen := &closeView{allAcked: y.allAckedAndDelivered(h), after: append([]hookAfterRec(nil), h.After...), before: len(h.Before), elapsed: cl.ReturnT - cl.InvokeT}
			for _, r := range h.Before {
				closeSeen.cutSeqs = append(closeSeen.cutSeqs, r.Seq)
			}
			cl.Meta = closeSeen
		}
		y.Pump()
	}
	// connection close
	cop := s.Start(0, y.closeConnOp())
	s.Wait()
	y.Pump()
	if !cop.harvested {
		y.PumpUntil(func() bool { return cop.harvested }, time.Second, 60*time.Second)
	}
	y.teardown()
	if hookDelay > 0 {
		// let the event dispatchers finish what they still hold
		for i := 0; i < 20; i++ {
			s.Advance(time.Second)
		}
	}

	s.Nontrivial()
	switch prop {
	case "C01":
		oracleC01(s, y)
	case "C20":
		oracleC20(s, y)
	}
	s.sample = y.sampleUp()
}

type closeView struct {
	allAcked bool
	after    []hookAfterRec
	before   int
	elapsed  time.Duration // simulated time Close took
	cutSeqs  []uint32      // sequence numbers announced to the send hook when Close returned
}

type flushBarrier struct {
	h    *upH
	snap stateSnap
}

func busyOps(s *Sim) string {
	out := ""
	for _, tk := range s.tasks {
		if tk.busy != nil {
			out += fmt.Sprintf("op%d %s(%s) ", tk.busy.ID, tk.busy.Name, tk.busy.Args)
		}
	}
	return out
}

// releaseOne emits one pending broker reply chosen by the tape; chunk results
// may be batched with further results of the same stream.
func (y *Sys) releaseOne() {
	b := y.s.Broker
	if len(b.Pend) == 0 {
		return
	}
	t := y.s.T
	p := b.Pend[t.Choose("rel-idx", len(b.Pend))]
	var extra []*pend
	if p.Kind == "ack" && t.Bool("rel-batch", 1, 2) {
		for _, q := range b.Pend {
			if q != p && q.Kind == "ack" && q.Up == p.Up && q.Link == p.Link && t.Bool("rel-batch-more", 1, 2) {
				extra = append(extra, q)
			}
		}
	}
	b.Release(p, extra)
}

// dupAck re-sends a result the broker already sent.
func (y *Sys) dupAck() {
	b := y.s.Broker
	t := y.s.T
	var cands []*bUp
	for _, u := range b.Ups {
		if len(u.ResultsSent) > 0 && !u.Closed {
			cands = append(cands, u)
		}
	}
	if len(cands) == 0 {
		return
	}
	u := cands[t.Choose("dup-up", len(cands))]
	seqs := make([]uint32, 0, len(u.ResultsSent))
	for q := range u.ResultsSent {
		seqs = append(seqs, q)
	}
	sort.Slice(seqs, func(i, j int) bool { return seqs[i] < seqs[j] })
	q := seqs[t.Choose("dup-seq", len(seqs))]
	for _, l := range y.aliveLinks() {
		if _, ok := u.aliasOn[l.ID]; ok {
			b.EmitDuplicateAck(u, l, q, u.ResultsSent[q][0])
			y.s.Stat("env.duplicate-ack")
			return
		}
	}
}

// allAckedAndDelivered: the broker sent a result for every chunk it saw and nothing is still in flight.
func (y *Sys) allAckedAndDelivered(h *upH) bool {
	if h.B == nil {
		return false
	}
	for _, p := range y.s.Broker.Pend {
		if p.Kind == "ack" && p.Up == h.B {
			return false
		}
	}
	for _, l := range y.allLinks() {
		if l.PendingB2C() > 0 || l.PendingC2B() > 0 {
			return false
		}
	}
	for _, a := range h.B.Arrivals {
		if len(h.B.ResultsSent[a.Seq]) == 0 {
			return false
		}
	}
	return true
}

// teardown ends the run: everything is closed so that no goroutine survives.
func (y *Sys) teardown() {
	s := y.s
	s.mu.Lock()
	s.Net.NoDial = true
	s.mu.Unlock()
	for _, tk := range s.tasks {
		if tk.busy != nil {
			tk.busy.cancel()
		}
	}
	s.Wait()
	s.Harvest()
	if y.Conn != nil && y.CloseOp == nil {
		// close from a helper goroutine: tasks may be stuck
		done := make(chan struct{})
		go func() { defer close(done); y.Conn.Close(context_bg()) }()
		s.Wait()
	}
	for _, l := range y.allLinks() {
		l.Kill(errEOF, errClosed)
	}
	s.Wait()
	for i := 0; i < 40; i++ {
		time.Sleep(3 * time.Second)
		s.Wait()
	}
	s.Harvest()
	if !s.AnyBusy() {
		s.stopTasks()
	}
	s.Wait()
}

func (y *Sys) sampleUp() any {
	type su struct {
		Spec   string
		Writes int
		Chunks int
		Points int
	}
	var out []su
	for _, h := range y.Ups {
		x := su{Spec: h.Spec.String(), Writes: len(h.Writes)}
		if h.B != nil {
			x.Chunks = len(h.B.Arrivals)
			for _, a := range h.B.Arrivals {
				x.Points += len(a.Points)
			}
		}
		out = append(out, x)
	}
	return out
}
