package dsim

import (
	"encoding/binary"
	"fmt"
	"sort"
	"time"

	"github.com/aptpod/iscp-go/message"
	"github.com/google/uuid"
)

// Broker is the executable reference model of the broker side of iSCPv2 as the
// client assumes it. It is driven only by the scheduler (root goroutine); it is
// both the environment and the ledger the oracles read.

type BrokerCfg struct {
	AutoReq         bool // answer open/resume/close/metadata requests on receipt
	AutoAck         bool // acknowledge upstream chunks on receipt
	AutoPong        bool // answer pings on receipt
	AutoCallAck     bool
	AutoAckComplete bool
	AliasAtOpen     bool // assign aliases for the data ids announced in the open request
	AliasInAck      bool // assign aliases for data ids announced in chunks (sent in the next ack)
	FailCodePermil  int  // share of chunk results that carry a failure code
	ConnectCode     message.ResultCode
	ReuseAliases    bool // a closed upstream's stream id alias is given to the next upstream opened on the connection
	SharedSessions  bool // remote upstreams come in pairs with the same source node and session id, different stream ids
	AliasFromZero   bool // stream id aliases are numbered from 0 on every connection (0 is an alias like any other)
}

type pt struct {
	ID      message.DataID
	Elapsed time.Duration
	Payload string
}

func (p pt) String() string {
	return fmt.Sprintf("%s@%d=%q", p.ID.String(), int64(p.Elapsed), trunc(p.Payload, 24))
}

func trunc(s string, n int) string {
	if len(s) <= n {
		return s
	}
	return s[:n] + fmt.Sprintf("…(%d)", len(s))
}

type chunkArrival struct {
	Order        int // global arrival counter
	Link         int
	Seq          uint32
	Points       []pt
	Groups       int
	EmptyGroup   bool
	At           time.Duration // when the broker saw it
	SentAt       time.Duration // when the client wrote it to the link
	AfterClose   bool
	DecodeErr    string
	IDsAnnounced []message.DataID
}

type closeReq struct {
	Link     int
	Order    int
	Total    uint64
	FinalSeq uint32
	At       time.Duration
	ReqID    uint32
}

type resumeRec struct {
	Link    int
	Order   int
	Outcome message.ResultCode
	Alias   uint32
}

type bUp struct {
	Idx        int
	ID         uuid.UUID
	Open       *message.UpstreamOpenRequest
	OpenLink   int
	QoS        message.QoS
	aliasOn    map[int]uint32 // link id -> stream id alias
	dataAlias  map[uint32]message.DataID
	revAlias   map[message.DataID]uint32
	nextAlias  uint32
	toAnnounce map[uint32]message.DataID

	Arrivals    []*chunkArrival
	CloseReqs   []*closeReq
	Closed      bool
	Resumes     []*resumeRec
	ResultsSent map[uint32][]message.ResultCode

	ConflictLeft int                // answer the next n resumes with RESUME_REQUEST_CONFLICT
	RefuseResume message.ResultCode // non-zero: refuse resumes with this code
}

type sentGroup struct {
	ID     message.DataID
	Alias  uint32 // 0 = full form
	Points []pt
}

type sentChunk struct {
	Order     int
	Link      int
	Info      message.UpstreamInfo
	UpAlias   uint32 // 0 = full form
	Seq       uint32
	Groups    []sentGroup
	BadAlias  bool // deliberately uses an alias nobody announced
	Delivered bool
}

type recvAck struct {
	Order   int
	Link    int
	AckID   uint32
	Results []*message.DownstreamChunkResult
	UpAl    map[uint32]message.UpstreamInfo
	DataAl  map[uint32]message.DataID
	At      time.Duration
}

type sentMeta struct {
	Order  int
	Link   int
	ReqID  uint32
	Source string
	Name   string
}

type bDown struct {
	OpenLink     int
	Idx          int
	ID           uuid.UUID
	Alias        uint32
	Open         *message.DownstreamOpenRequest
	QoS          message.QoS
	link         *Link
	upAlias      map[uint32]message.UpstreamInfo // announced by the client (acks received so far)
	dataAlias    map[uint32]message.DataID       // pre-registered + announced
	Sent         []*sentChunk
	Acks         []*recvAck
	Metas        []*sentMeta
	MetaAcks     []uint32
	CloseReqs    []*closeReq
	Closed       bool
	Resumes      []*resumeRec
	ConflictLeft int
	RefuseResume message.ResultCode
	Events       []string // frame order on the wire for this stream: "ack:<id>", "close"
}

type remoteUp struct {
	Info  message.UpstreamInfo
	Seq   uint32
	Ended bool // the broker has told the downstream that this upstream ended: no further chunks from it
}

type bCall struct {
	Order int
	Link  int
	Msg   *message.UpstreamCall
	Acked []message.ResultCode
}

type bMeta struct {
	Order int
	Link  int
	ReqID uint32
	Msg   *message.UpstreamMetadata
}

type bConn struct {
	Link         *Link
	Req          *message.ConnectRequest
	Token        string
	Connected    bool
	ReqIDs       []uint32 // request ids seen (in order), all request kinds
	Pings        []pingRec
	Pongs        []uint32 // pongs received for broker pings
	Disconnect   *message.Disconnect
	DisconnectAt int      // frame index at which Disconnect arrived
	Frames       []string // type names of every frame received, in order
	FrameT       []time.Duration
	nextUpAlias  uint32
	SilentPong   bool
	nextPing     uint32
	BrokerPings  []uint32
}

type pingRec struct {
	ID uint32
	At time.Duration
}

type pend struct {
	ID   int
	Kind string // resp, ack, pong, callack, ackcomplete
	Link *Link
	Desc string
	Msg  message.Message
	Up   *bUp
	Res  *message.UpstreamChunkResult
	Born time.Duration
}

type Broker struct {
	// BadUpAlias, if not 0, is the alias the next "bad alias" chunk uses (instead of a far-away number)
	BadUpAlias uint32
	// HoldMetadata: while set, metadata acks are kept pending whatever AutoReq says
	HoldMetadata bool
	s          *Sim
	Cfg        BrokerCfg
	Conns      []*bConn
	Ups        []*bUp
	Downs      []*bDown
	Calls      []*bCall
	Metas      []*bMeta
	Remotes    []*remoteUp
	Pend       []*pend
	order      int
	pendID     int
	Tokens     []string
	Unknown    []string                  // frames the broker could not attribute
	DownCalls  []*message.DownstreamCall // calls/replies emitted to the client
	curSentAt  time.Duration
	OnEmit     func(m message.Message) // every non-ack reply the broker emits
}

func newBroker(s *Sim, cfg BrokerCfg) *Broker {
	return &Broker{s: s, Cfg: cfg}
}

func mkUUID(kind byte, n int) uuid.UUID {
	var u uuid.UUID
	u[0] = kind
	binary.BigEndian.PutUint32(u[12:], uint32(n))
	u[6] = 0x40
	u[8] = 0x80
	return u
}

func (b *Broker) next() int { b.order++; return b.order }

func (b *Broker) conn(l *Link) *bConn {
	if l.bc == nil {
		l.bc = &bConn{Link: l, nextPing: 1}
		b.Conns = append(b.Conns, l.bc)
	}
	return l.bc
}

func (b *Broker) upByAlias(l *Link, alias uint32) *bUp {
	var closed *bUp
	for _, u := range b.Ups {
		if a, ok := u.aliasOn[l.ID]; ok && a == alias {
			if !u.Closed {
				return u
			}
			closed = u // an alias may have been reused: the open stream owns it
		}
	}
	return closed
}

// allocUpAlias hands out the stream id alias of a new or resumed upstream on connection c.
func (b *Broker) allocUpAlias(c *bConn, l *Link) uint32 {
	first := uint32(1)
	if b.Cfg.AliasFromZero {
		first = 0
	}
	if !b.Cfg.ReuseAliases {
		c.nextUpAlias++
		return c.nextUpAlias - 1 + first
	}
	for a := first; ; a++ {
		used := false
		for _, u := range b.Ups {
			if x, ok := u.aliasOn[l.ID]; ok && x == a && !u.Closed {
				used = true
				break
			}
		}
		if !used {
			if a+1 > c.nextUpAlias {
				c.nextUpAlias = a + 1
			} else {
				b.s.Stat("env.upstream-alias-reused-by-broker")
			}
			return a
		}
	}
}

func (b *Broker) upByID(id uuid.UUID) *bUp {
	for _, u := range b.Ups {
		if u.ID == id {
			return u
		}
	}
	return nil
}

func (b *Broker) downByID(id uuid.UUID) *bDown {
	for _, d := range b.Downs {
		if d.ID == id {
			return d
		}
	}
	return nil
}

func (b *Broker) downByAlias(l *Link, alias uint32) *bDown {
	for _, d := range b.Downs {
		if d.link == l && d.Alias == alias && !d.Closed {
			return d
		}
	}
	return nil
}

// queue a reply; auto => emit now
func (b *Broker) reply(auto bool, p *pend) {
	b.pendID++
	p.ID = b.pendID
	p.Born = b.s.Now()
	if auto {
		b.emit(p, nil)
		return
	}
	b.Pend = append(b.Pend, p)
}

// Release emits pending item i. For chunk results, extra lists further pending
// results of the same stream and link to batch into the same ack.
func (b *Broker) Release(p *pend, extra []*pend) {
	b.remove(p)
	for _, e := range extra {
		b.remove(e)
	}
	b.emit(p, extra)
}

func (b *Broker) remove(p *pend) {
	for i, q := range b.Pend {
		if q == p {
			b.Pend = append(b.Pend[:i], b.Pend[i+1:]...)
			return
		}
	}
}

// Drop discards a pending reply (the broker never answers).
func (b *Broker) Drop(p *pend) { b.remove(p) }

func (b *Broker) ReleaseAll() int {
	n := 0
	for len(b.Pend) > 0 {
		p := b.Pend[0]
		var extra []*pend
		if p.Kind == "ack" {
			for _, q := range b.Pend[1:] {
				if q.Kind == "ack" && q.Up == p.Up && q.Link == p.Link {
					extra = append(extra, q)
				}
			}
		}
		b.Release(p, extra)
		n++
	}
	return n
}

func (b *Broker) emit(p *pend, extra []*pend) {
	if !p.Link.Alive() {
		b.s.Stat("broker.reply-to-dead-link")
		return
	}
	if p.Kind == "ack" {
		u := p.Up
		alias, ok := u.aliasOn[p.Link.ID]
		if !ok {
			return
		}
		ack := &message.UpstreamChunkAck{StreamIDAlias: alias, ExtensionFields: &message.UpstreamChunkAckExtensionFields{}}
		for _, q := range append([]*pend{p}, extra...) {
			ack.Results = append(ack.Results, q.Res)
			u.ResultsSent[q.Res.SequenceNumber] = append(u.ResultsSent[q.Res.SequenceNumber], q.Res.ResultCode)
		}
		if len(u.toAnnounce) > 0 {
			ack.DataIDAliases = map[uint32]*message.DataID{}
			for a, id := range u.toAnnounce {
				id := id
				ack.DataIDAliases[a] = &id
			}
			u.toAnnounce = map[uint32]message.DataID{}
		}
		p.Link.push(ack)
		return
	}
	p.Link.push(p.Msg)
	if b.OnEmit != nil {
		b.OnEmit(p.Msg)
	}
}

// EmitDuplicateAck re-sends a result that was already sent (duplicate ack fault).
func (b *Broker) EmitDuplicateAck(u *bUp, l *Link, seq uint32, code message.ResultCode) {
	alias, ok := u.aliasOn[l.ID]
	if !ok || !l.Alive() {
		return
	}
	u.ResultsSent[seq] = append(u.ResultsSent[seq], code)
	l.push(&message.UpstreamChunkAck{StreamIDAlias: alias, Results: []*message.UpstreamChunkResult{{SequenceNumber: seq, ResultCode: code, ResultString: "dup"}}})
}

// LinkDown is called when a link dies: replies that were never emitted for it are void.
func (b *Broker) LinkDown(l *Link) {
	kept := b.Pend[:0]
	for _, p := range b.Pend {
		if p.Link != l {
			kept = append(kept, p)
		}
	}
	b.Pend = kept
	for _, d := range b.Downs {
		if d.link == l {
			d.link = nil
		}
	}
}

// Handle processes one decoded client frame.
func (b *Broker) Handle(l *Link, m message.Message) {
	s := b.s
	c := b.conn(l)
	c.Frames = append(c.Frames, fmt.Sprintf("%T", m))
	c.FrameT = append(c.FrameT, s.Now())
	if r, ok := m.(message.Request); ok {
		switch m.(type) {
		case *message.Pong, *message.DownstreamMetadataAck:
		default:
			c.ReqIDs = append(c.ReqIDs, r.GetRequestID())
		}
	}
	if s.trace {
		s.Logf("broker<- %s %s", l, describe(m))
	}
	switch t := m.(type) {
	case *message.ConnectRequest:
		c.Req = t
		c.Token = t.AccessToken()
		b.Tokens = append(b.Tokens, c.Token)
		code := b.Cfg.ConnectCode
		if code == 0 {
			code = message.ResultCodeSucceeded
		}
		c.Connected = code == message.ResultCodeSucceeded
		b.reply(true, &pend{Kind: "resp", Link: l, Desc: "connect", Msg: &message.ConnectResponse{
			RequestID: t.RequestID, ProtocolVersion: t.ProtocolVersion, ResultCode: code, ResultString: "OK",
			ExtensionFields: &message.ConnectResponseExtensionFields{},
		}})
	case *message.Ping:
		c.Pings = append(c.Pings, pingRec{uint32(t.RequestID), s.Now()})
		if c.SilentPong {
			s.Stat("fault.pong-withheld")
			return
		}
		b.reply(b.Cfg.AutoPong, &pend{Kind: "pong", Link: l, Desc: fmt.Sprintf("pong %d", t.RequestID), Msg: &message.Pong{RequestID: t.RequestID}})
	case *message.Pong:
		c.Pongs = append(c.Pongs, uint32(t.RequestID))
	case *message.Disconnect:
		c.Disconnect = t
		c.DisconnectAt = len(c.Frames) - 1
	case *message.UpstreamOpenRequest:
		u := &bUp{
			Idx: len(b.Ups), ID: mkUUID(0xA0, len(b.Ups)+1), Open: t, OpenLink: l.ID, QoS: t.QoS,
			aliasOn: map[int]uint32{}, dataAlias: map[uint32]message.DataID{}, revAlias: map[message.DataID]uint32{},
			toAnnounce: map[uint32]message.DataID{}, ResultsSent: map[uint32][]message.ResultCode{},
		}
		ua := b.allocUpAlias(c, l)
		b.Ups = append(b.Ups, u)
		u.aliasOn[l.ID] = ua
		resp := &message.UpstreamOpenResponse{
			RequestID: t.RequestID, AssignedStreamID: u.ID, AssignedStreamIDAlias: ua,
			ResultCode: message.ResultCodeSucceeded, ResultString: "OK", ServerTime: time.Unix(1_700_000_000, 0).UTC(),
			DataIDAliases: map[uint32]*message.DataID{}, ExtensionFields: &message.UpstreamOpenResponseExtensionFields{},
		}
		if b.Cfg.AliasAtOpen {
			for _, id := range t.DataIDs {
				if _, ok := u.revAlias[*id]; ok {
					continue
				}
				u.nextAlias++
				u.dataAlias[u.nextAlias] = *id
				u.revAlias[*id] = u.nextAlias
				idc := *id
				resp.DataIDAliases[u.nextAlias] = &idc
			}
		}
		b.reply(b.Cfg.AutoReq, &pend{Kind: "resp", Link: l, Desc: fmt.Sprintf("upstream-open u%d", u.Idx), Msg: resp})
	case *message.UpstreamResumeRequest:
		u := b.upByID(t.StreamID)
		resp := &message.UpstreamResumeResponse{RequestID: t.RequestID, ExtensionFields: &message.UpstreamResumeResponseExtensionFields{}}
		rec := &resumeRec{Link: l.ID, Order: b.next()}
		switch {
		case u == nil || u.Closed:
			resp.ResultCode, resp.ResultString = message.ResultCodeStreamNotFound, "stream not found"
		case u.RefuseResume != 0:
			resp.ResultCode, resp.ResultString = u.RefuseResume, "refused"
			s.Stat("fault.resume-refused")
		case u.ConflictLeft > 0:
			u.ConflictLeft--
			resp.ResultCode, resp.ResultString = message.ResultCodeResumeRequestConflict, "conflict"
			s.Stat("fault.resume-conflict")
		default:
			ua := b.allocUpAlias(c, l)
			u.aliasOn[l.ID] = ua
			resp.AssignedStreamIDAlias = ua
			resp.ResultCode, resp.ResultString = message.ResultCodeSucceeded, "OK"
		}
		rec.Outcome, rec.Alias = resp.ResultCode, resp.AssignedStreamIDAlias
		if u != nil {
			u.Resumes = append(u.Resumes, rec)
		} else {
			b.Unknown = append(b.Unknown, "upstream-resume "+t.StreamID.String())
		}
		b.reply(b.Cfg.AutoReq, &pend{Kind: "resp", Link: l, Desc: "upstream-resume", Msg: resp})
	case *message.UpstreamChunk:
		u := b.upByAlias(l, t.StreamIDAlias)
		if u == nil {
			b.Unknown = append(b.Unknown, fmt.Sprintf("chunk for unknown alias %d on %s", t.StreamIDAlias, l))
			return
		}
		arr := &chunkArrival{Order: b.next(), Link: l.ID, Seq: t.StreamChunk.SequenceNumber, At: s.Now(), SentAt: b.curSentAt, AfterClose: len(u.CloseReqs) > 0}
		for _, id := range t.DataIDs {
			arr.IDsAnnounced = append(arr.IDsAnnounced, *id)
		}
		arr.Groups = len(t.StreamChunk.DataPointGroups)
		for _, g := range t.StreamChunk.DataPointGroups {
			var id message.DataID
			switch x := g.DataIDOrAlias.(type) {
			case *message.DataID:
				id = *x
			case message.DataIDAlias:
				v, ok := u.dataAlias[uint32(x)]
				if !ok {
					arr.DecodeErr = fmt.Sprintf("data id alias %d was never assigned by the broker", uint32(x))
					continue
				}
				id = v
			default:
				arr.DecodeErr = "group without data id"
				continue
			}
			if len(g.DataPoints) == 0 {
				arr.EmptyGroup = true
			}
			for _, p := range g.DataPoints {
				arr.Points = append(arr.Points, pt{ID: id, Elapsed: p.ElapsedTime, Payload: string(p.Payload)})
			}
		}
		u.Arrivals = append(u.Arrivals, arr)
		if b.Cfg.AliasInAck {
			for _, id := range t.DataIDs {
				if _, ok := u.revAlias[*id]; !ok {
					u.nextAlias++
					u.dataAlias[u.nextAlias] = *id
					u.revAlias[*id] = u.nextAlias
					u.toAnnounce[u.nextAlias] = *id
				}
			}
		}
		code := message.ResultCodeSucceeded
		if b.Cfg.FailCodePermil > 0 && s.T.Bool("ack-fail-code", b.Cfg.FailCodePermil, 1000) {
			code = message.ResultCodeInvalidPayload
			s.Stat("env.ack-failure-code")
		}
		b.reply(b.Cfg.AutoAck, &pend{Kind: "ack", Link: l, Up: u, Desc: fmt.Sprintf("ack u%d seq%d", u.Idx, arr.Seq),
			Res: &message.UpstreamChunkResult{SequenceNumber: arr.Seq, ResultCode: code, ResultString: "r"}})
	case *message.UpstreamCloseRequest:
		u := b.upByID(t.StreamID)
		resp := &message.UpstreamCloseResponse{RequestID: t.RequestID, ResultCode: message.ResultCodeSucceeded, ResultString: "OK", ExtensionFields: &message.UpstreamCloseResponseExtensionFields{}}
		if u == nil {
			resp.ResultCode, resp.ResultString = message.ResultCodeStreamNotFound, "stream not found"
			b.Unknown = append(b.Unknown, "upstream-close "+t.StreamID.String())
		} else {
			u.CloseReqs = append(u.CloseReqs, &closeReq{Link: l.ID, Order: b.next(), Total: t.TotalDataPoints, FinalSeq: t.FinalSequenceNumber, At: s.Now(), ReqID: uint32(t.RequestID)})
			u.Closed = true
		}
		b.reply(b.Cfg.AutoReq, &pend{Kind: "resp", Link: l, Desc: "upstream-close", Msg: resp})
	case *message.UpstreamMetadata:
		b.Metas = append(b.Metas, &bMeta{Order: b.next(), Link: l.ID, ReqID: uint32(t.RequestID), Msg: t})
		mcode := message.ResultCodeSucceeded
		if mk := metaMarker(t); len(mk) > 5 && mk[5] == '!' { // callers ask for a failure code by name
			mcode = message.ResultCodeProcessFailed
		}
		b.reply(b.Cfg.AutoReq && !b.HoldMetadata, &pend{Kind: "resp", Link: l, Desc: "metadata-ack " + metaMarker(t), Msg: &message.UpstreamMetadataAck{
			RequestID: t.RequestID, ResultCode: mcode, ResultString: metaMarker(t), ExtensionFields: &message.UpstreamMetadataAckExtensionFields{}}})
	case *message.UpstreamCall:
		call := &bCall{Order: b.next(), Link: l.ID, Msg: t}
		b.Calls = append(b.Calls, call)
		code := message.ResultCodeSucceeded
		if len(t.Name) > 0 && t.Name[0] == '!' { // callers ask for a negative ack by name
			code = message.ResultCodeProcessFailed
		}
		call.Acked = append(call.Acked, code)
		b.reply(b.Cfg.AutoCallAck, &pend{Kind: "callack", Link: l, Desc: "callack " + t.CallID, Msg: &message.UpstreamCallAck{
			CallID: t.CallID, ResultCode: code, ResultString: "ack:" + t.Name, ExtensionFields: &message.UpstreamCallAckExtensionFields{}}})
	case *message.DownstreamOpenRequest:
		d := &bDown{OpenLink: l.ID, Idx: len(b.Downs), ID: mkUUID(0xD0, len(b.Downs)+1), Alias: t.DesiredStreamIDAlias, Open: t, QoS: t.QoS, link: l,
			upAlias: map[uint32]message.UpstreamInfo{}, dataAlias: map[uint32]message.DataID{}}
		for a, id := range t.DataIDAliases {
			d.dataAlias[a] = *id
		}
		b.Downs = append(b.Downs, d)
		b.reply(b.Cfg.AutoReq, &pend{Kind: "resp", Link: l, Desc: fmt.Sprintf("downstream-open d%d", d.Idx), Msg: &message.DownstreamOpenResponse{
			RequestID: t.RequestID, AssignedStreamID: d.ID, ResultCode: message.ResultCodeSucceeded, ResultString: "OK",
			ServerTime: time.Unix(1_700_000_000, 0).UTC(), ExtensionFields: &message.DownstreamOpenResponseExtensionFields{}}})
	case *message.DownstreamResumeRequest:
		d := b.downByID(t.StreamID)
		resp := &message.DownstreamResumeResponse{RequestID: t.RequestID, ExtensionFields: &message.DownstreamResumeResponseExtensionFields{}}
		rec := &resumeRec{Link: l.ID, Order: b.next(), Alias: t.DesiredStreamIDAlias}
		switch {
		case d == nil || d.Closed:
			resp.ResultCode, resp.ResultString = message.ResultCodeStreamNotFound, "stream not found"
		case d.RefuseResume != 0:
			resp.ResultCode, resp.ResultString = d.RefuseResume, "refused"
			s.Stat("fault.resume-refused")
		case d.ConflictLeft > 0:
			d.ConflictLeft--
			resp.ResultCode, resp.ResultString = message.ResultCodeResumeRequestConflict, "conflict"
			s.Stat("fault.resume-conflict")
		default:
			d.link = l
			d.Alias = t.DesiredStreamIDAlias
			resp.ResultCode, resp.ResultString = message.ResultCodeSucceeded, "OK"
		}
		rec.Outcome = resp.ResultCode
		if d != nil {
			d.Resumes = append(d.Resumes, rec)
		} else {
			b.Unknown = append(b.Unknown, "downstream-resume "+t.StreamID.String())
		}
		b.reply(b.Cfg.AutoReq, &pend{Kind: "resp", Link: l, Desc: "downstream-resume", Msg: resp})
	case *message.DownstreamCloseRequest:
		d := b.downByID(t.StreamID)
		resp := &message.DownstreamCloseResponse{RequestID: t.RequestID, ResultCode: message.ResultCodeSucceeded, ResultString: "OK", ExtensionFields: &message.DownstreamCloseResponseExtensionFields{}}
		if d == nil {
			resp.ResultCode, resp.ResultString = message.ResultCodeStreamNotFound, "stream not found"
		} else {
			d.CloseReqs = append(d.CloseReqs, &closeReq{Link: l.ID, Order: b.next(), At: s.Now(), ReqID: uint32(t.RequestID)})
			d.Closed = true
			d.Events = append(d.Events, "close")
		}
		b.reply(b.Cfg.AutoReq, &pend{Kind: "resp", Link: l, Desc: "downstream-close", Msg: resp})
	case *message.DownstreamChunkAck:
		d := b.downByAliasAny(l, t.StreamIDAlias)
		if d == nil {
			b.Unknown = append(b.Unknown, fmt.Sprintf("downstream ack for unknown alias %d", t.StreamIDAlias))
			return
		}
		ra := &recvAck{Order: b.next(), Link: l.ID, AckID: t.AckID, Results: t.Results, UpAl: map[uint32]message.UpstreamInfo{}, DataAl: map[uint32]message.DataID{}, At: s.Now()}
		for a, v := range t.UpstreamAliases {
			ra.UpAl[a] = *v
			if _, dup := d.upAlias[a]; !dup {
				d.upAlias[a] = *v
			}
		}
		for a, v := range t.DataIDAliases {
			ra.DataAl[a] = *v
			if _, dup := d.dataAlias[a]; !dup {
				d.dataAlias[a] = *v
			}
		}
		d.Acks = append(d.Acks, ra)
		d.Events = append(d.Events, fmt.Sprintf("ack:%d", t.AckID))
		b.reply(b.Cfg.AutoAckComplete, &pend{Kind: "ackcomplete", Link: l, Desc: "ackcomplete", Msg: &message.DownstreamChunkAckComplete{
			StreamIDAlias: t.StreamIDAlias, AckID: t.AckID, ResultCode: message.ResultCodeSucceeded, ResultString: "OK", ExtensionFields: &message.DownstreamChunkAckCompleteExtensionFields{}}})
	case *message.DownstreamMetadataAck:
		for _, d := range b.Downs {
			for _, mm := range d.Metas {
				if mm.ReqID == uint32(t.RequestID) { // (an item delivered before an outage may be acknowledged on the next connection)
					d.MetaAcks = append(d.MetaAcks, uint32(t.RequestID))
					return
				}
			}
		}
		b.Unknown = append(b.Unknown, fmt.Sprintf("metadata ack for unknown request id %d", t.RequestID))
	default:
		b.Unknown = append(b.Unknown, fmt.Sprintf("unexpected %T", m))
	}
}

func (b *Broker) downByAliasAny(l *Link, alias uint32) *bDown {
	var hit *bDown
	for _, d := range b.Downs {
		if d.Alias == alias && (d.link == l || d.link == nil) {
			hit = d
			if d.link == l {
				return d
			}
		}
	}
	return hit
}

func metaMarker(m *message.UpstreamMetadata) string {
	if bt, ok := m.Metadata.(*message.BaseTime); ok {
		return "meta:" + bt.Name
	}
	return "meta"
}

// noteConnectAttempt records a ConnectRequest that the broker saw but did not answer.
func (b *Broker) noteConnectAttempt(l *Link, t *message.ConnectRequest) {
	c := b.conn(l)
	c.Req = t
	c.Token = t.AccessToken()
	b.Tokens = append(b.Tokens, c.Token)
}

// --- broker-initiated traffic ---

func (b *Broker) Remote(i int) *remoteUp {
	for len(b.Remotes) <= i {
		n := len(b.Remotes) + 1
		info := message.UpstreamInfo{SessionID: fmt.Sprintf("sess-%d", n), SourceNodeID: fmt.Sprintf("node-%d", (n-1)%3+1), StreamID: mkUUID(0xE0, n)}
		if b.Cfg.SharedSessions {
			k := (n-1)/2%3 + 1
			info.SessionID, info.SourceNodeID = fmt.Sprintf("sess-of-node-%d", k), fmt.Sprintf("node-%d", k)
		}
		b.Remotes = append(b.Remotes, &remoteUp{Info: info})
	}
	return b.Remotes[i]
}

// EmitChunk sends one downstream chunk. upFull/idFull decide the form; the
// alias form is only used for aliases the client announced (unless bad is set).
func (b *Broker) EmitChunk(d *bDown, r *remoteUp, groups []sentGroup, upFull bool, bad bool) *sentChunk {
	if d.link == nil || !d.link.Alive() {
		return nil
	}
	r.Seq++
	sc := &sentChunk{Order: b.next(), Link: d.link.ID, Info: r.Info, Seq: r.Seq, Groups: groups, BadAlias: bad}
	msg := &message.DownstreamChunk{StreamIDAlias: d.Alias, ExtensionFields: &message.DownstreamChunkExtensionFields{},
		StreamChunk: &message.StreamChunk{SequenceNumber: r.Seq}}
	info := r.Info
	msg.UpstreamOrAlias = &info
	if !upFull {
		for a, v := range d.upAlias {
			if v == r.Info {
				sc.UpAlias = a
				msg.UpstreamOrAlias = message.UpstreamAlias(a)
				break
			}
		}
	}
	if bad && upFull {
		sc.UpAlias = 0xFFFF0000 + uint32(sc.Order)
		if b.BadUpAlias != 0 {
			sc.UpAlias, b.BadUpAlias = b.BadUpAlias, 0
		}
		msg.UpstreamOrAlias = message.UpstreamAlias(sc.UpAlias)
	}
	for gi := range groups {
		g := &groups[gi]
		mg := &message.DataPointGroup{}
		id := g.ID
		mg.DataIDOrAlias = &id
		if g.Alias != 0 {
			mg.DataIDOrAlias = message.DataIDAlias(g.Alias)
		}
		for _, p := range g.Points {
			mg.DataPoints = append(mg.DataPoints, &message.DataPoint{ElapsedTime: p.Elapsed, Payload: []byte(p.Payload)})
		}
		msg.StreamChunk.DataPointGroups = append(msg.StreamChunk.DataPointGroups, mg)
	}
	d.Sent = append(d.Sent, sc)
	d.link.push(msg)
	return sc
}

// AliasOfData returns the alias the client announced for id on d (0 if none).
func (d *bDown) AliasOfData(id message.DataID) uint32 {
	var best uint32
	for a, v := range d.dataAlias {
		if v == id && (best == 0 || a < best) {
			best = a
		}
	}
	return best
}

// AliasesOfData returns every alias the client announced for id on d, ascending (an id that the
// application pre-registered twice has two).
func (d *bDown) AliasesOfData(id message.DataID) []uint32 {
	var out []uint32
	for a, v := range d.dataAlias {
		if v == id {
			out = append(out, a)
		}
	}
	sort.Slice(out, func(i, j int) bool { return out[i] < out[j] })
	return out
}

func (d *bDown) HasUpAlias(info message.UpstreamInfo) bool {
	for _, v := range d.upAlias {
		if v == info {
			return true
		}
	}
	return false
}

// EmitMetadata sends a DownstreamMetadata (BaseTime) for a source node.
func (b *Broker) EmitMetadata(d *bDown, source, name string, reqID uint32) *sentMeta {
	if d.link == nil || !d.link.Alive() {
		return nil
	}
	sm := &sentMeta{Order: b.next(), Link: d.link.ID, ReqID: reqID, Source: source, Name: name}
	d.Metas = append(d.Metas, sm)
	d.link.push(&message.DownstreamMetadata{RequestID: message.RequestID(reqID), StreamIDAlias: d.Alias, SourceNodeID: source,
		Metadata:        &message.BaseTime{SessionID: "s", Name: name, Priority: 1, ElapsedTime: time.Second, BaseTime: time.Unix(1_700_000_000, 0).UTC()},
		ExtensionFields: &message.DownstreamMetadataExtensionFields{}})
	return sm
}

// EmitUpstreamClosedMetadata tells the downstream that remote upstream r has ended normally (the
// broker sends it after the last chunk of that upstream).
func (b *Broker) EmitUpstreamClosedMetadata(d *bDown, r *remoteUp, reqID uint32) *sentMeta {
	if d.link == nil || !d.link.Alive() {
		return nil
	}
	sm := &sentMeta{Order: b.next(), Link: d.link.ID, ReqID: reqID, Source: r.Info.SourceNodeID, Name: "upstream-closed:" + r.Info.SessionID}
	d.Metas = append(d.Metas, sm)
	d.link.push(&message.DownstreamMetadata{RequestID: message.RequestID(reqID), StreamIDAlias: d.Alias, SourceNodeID: r.Info.SourceNodeID,
		Metadata:        &message.UpstreamNormalClose{StreamID: r.Info.StreamID, SessionID: r.Info.SessionID, TotalDataPoints: 1, FinalSequenceNumber: r.Seq},
		ExtensionFields: &message.DownstreamMetadataExtensionFields{}})
	r.Ended = true
	return sm
}

// EmitCall sends a DownstreamCall (request if reqCallID is empty, else a reply).
func (b *Broker) EmitCall(l *Link, callID, reqCallID, src, name string, payload []byte) {
	if !l.Alive() {
		return
	}
	m := &message.DownstreamCall{CallID: callID, RequestCallID: reqCallID, SourceNodeID: src, Name: name, Type: "t", Payload: payload, ExtensionFields: &message.DownstreamCallExtensionFields{}}
	b.DownCalls = append(b.DownCalls, m)
	l.push(m)
}

// EmitPing sends a broker ping (odd request ids).
func (b *Broker) EmitPing(l *Link) uint32 {
	c := b.conn(l)
	id := c.nextPing
	c.nextPing += 2
	c.BrokerPings = append(c.BrokerPings, id)
	l.push(&message.Ping{RequestID: message.RequestID(id), ExtensionFields: &message.PingExtensionFields{}})
	return id
}

func describe(m message.Message) string {
	switch t := m.(type) {
	case *message.ConnectRequest:
		return fmt.Sprintf("ConnectRequest{id=%d token=%q ping=%v/%v}", t.RequestID, t.AccessToken(), t.PingInterval, t.PingTimeout)
	case *message.Ping:
		return fmt.Sprintf("Ping{%d}", t.RequestID)
	case *message.Pong:
		return fmt.Sprintf("Pong{%d}", t.RequestID)
	case *message.Disconnect:
		return fmt.Sprintf("Disconnect{%d}", t.ResultCode)
	case *message.UpstreamOpenRequest:
		return fmt.Sprintf("UpstreamOpenRequest{id=%d sess=%q qos=%v ids=%d}", t.RequestID, t.SessionID, t.QoS, len(t.DataIDs))
	case *message.UpstreamResumeRequest:
		return fmt.Sprintf("UpstreamResumeRequest{id=%d stream=%x}", t.RequestID, t.StreamID[12:])
	case *message.UpstreamChunk:
		n := 0
		for _, g := range t.StreamChunk.DataPointGroups {
			n += len(g.DataPoints)
		}
		return fmt.Sprintf("UpstreamChunk{alias=%d seq=%d groups=%d points=%d ids=%d}", t.StreamIDAlias, t.StreamChunk.SequenceNumber, len(t.StreamChunk.DataPointGroups), n, len(t.DataIDs))
	case *message.UpstreamCloseRequest:
		return fmt.Sprintf("UpstreamCloseRequest{id=%d stream=%x total=%d final=%d}", t.RequestID, t.StreamID[12:], t.TotalDataPoints, t.FinalSequenceNumber)
	case *message.UpstreamMetadata:
		return fmt.Sprintf("UpstreamMetadata{id=%d %s}", t.RequestID, metaMarker(t))
	case *message.UpstreamCall:
		return fmt.Sprintf("UpstreamCall{call=%s req=%s name=%s}", t.CallID, t.RequestCallID, t.Name)
	case *message.DownstreamOpenRequest:
		return fmt.Sprintf("DownstreamOpenRequest{id=%d alias=%d filters=%d qos=%v}", t.RequestID, t.DesiredStreamIDAlias, len(t.DownstreamFilters), t.QoS)
	case *message.DownstreamResumeRequest:
		return fmt.Sprintf("DownstreamResumeRequest{id=%d stream=%x alias=%d}", t.RequestID, t.StreamID[12:], t.DesiredStreamIDAlias)
	case *message.DownstreamCloseRequest:
		return fmt.Sprintf("DownstreamCloseRequest{id=%d stream=%x}", t.RequestID, t.StreamID[12:])
	case *message.DownstreamChunkAck:
		return fmt.Sprintf("DownstreamChunkAck{alias=%d ack=%d results=%d ups=%d ids=%d}", t.StreamIDAlias, t.AckID, len(t.Results), len(t.UpstreamAliases), len(t.DataIDAliases))
	case *message.DownstreamMetadataAck:
		return fmt.Sprintf("DownstreamMetadataAck{id=%d}", t.RequestID)
	}
	return fmt.Sprintf("%T", m)
}
