package dsim

import (
	"bytes"
	"fmt"
	"reflect"
	"strings"
	"time"

	"github.com/aptpod/iscp-go/encoding/convert"
	"github.com/aptpod/iscp-go/transport"
	"github.com/gogo/protobuf/jsonpb"
	"github.com/gogo/protobuf/proto"

	"github.com/aptpod/iscp-go/encoding"
	iscperrors "github.com/aptpod/iscp-go/errors"
	"github.com/aptpod/iscp-go/iscp"
	"github.com/aptpod/iscp-go/message"
)

// C12 (the part simulation can reach): hostile bytes arriving on a live
// session. Broker->client frames are bit-flipped, truncated, spliced, replaced
// by random bytes or by a *valid* message of another type that bears an
// outstanding request id. The process must survive, every call must stay within
// its deadline, a decoded frame must re-encode to itself, oversize frames must be
// refused with the too-large error.

func init() { scenarios["C12"] = runC12 }

func runC12(s *Sim) {
	t := s.T
	if t.Bool("wire-level-flood", 1, 12) {
		runC12Wire(s)
		return
	}
	s.Family = "hostile-frames"
	bc := BrokerCfg{AutoReq: false, AutoAck: false, AutoPong: false, AutoCallAck: false, AutoAckComplete: true}
	y := newSys(s, bc)
	s.Net.Unrel = t.Bool("datagram-side", 1, 3) // the connection has a datagram side with a reader of its own
	if t.Bool("json", 1, 3) {
		y.Enc = iscp.EncodingNameJSON
	}
	y.PingInterval = Pick(t, "ping-iv", 2*time.Second, time.Second, 5*time.Second)
	y.PingTimeout = Pick(t, "ping-to", time.Second, 2*time.Second)
	s.yieldDensity = Pick(t, "yield", 0, 0, 50)
	c := &c08{y: y}
	s.NewTasks(4)
	s.Broker.Cfg.AutoReq, s.Broker.Cfg.AutoAck, s.Broker.Cfg.AutoPong = true, true, true
	s.Start(3, y.connectOp())
	s.Wait()
	y.Pump()
	if y.ConnOp = s.ops[0]; !y.ConnOp.harvested || y.ConnOp.Err != nil {
		s.HarnessError("connect did not succeed: %v", y.ConnOp.Err)
		return
	}
	up := s.Start(3, y.openUpOp(upSpec{QoS: message.QoSReliable, Policy: "immediate", CloseTimeout: 2 * time.Second}))
	s.Wait()
	y.Pump()
	dn := s.Start(3, y.openDownOp(downSpec{QoS: message.QoSReliable, Sources: []string{"node-1", "node-2"}, AckFlush: 100 * time.Millisecond}))
	s.Wait()
	y.Pump()
	if !up.harvested || up.Err != nil || !dn.harvested || dn.Err != nil {
		s.HarnessError("setup did not succeed: %v %v", up.Err, dn.Err)
		return
	}
	c.up, c.dn = y.Ups[0], y.Downs[0]
	s.Broker.Cfg.AutoReq, s.Broker.Cfg.AutoAck, s.Broker.Cfg.AutoPong, s.Broker.Cfg.AutoCallAck = false, false, false, false

	kinds := []string{"OpenUpstream", "OpenDownstream", "Write", "Flush", "ReadDataPoints", "ReadMetadata", "SendMetadata", "SendCall", "SendCallAndWait", "ReceiveCall"}
	steps := Pick(t, "steps", 40, 15, 80)
	if s.Tier == "thorough" {
		steps *= 3
	}
	hostileLeft := Pick(t, "hostile-n", 2, 1, 4, 8)
	var ops []*Op
	var prevFrame []byte
	link := func() *Link {
		for i := len(s.Net.Links) - 1; i >= 0; i-- {
			if l := s.Net.Links[i]; l.Alive() && l.bc != nil && l.bc.Connected {
				return l
			}
		}
		return nil
	}
	checkDecoder := func(l *Link, b []byte, what string) {
		// whenever the repository's decoder accepts a hostile frame, the message must re-encode and decode to itself
		m, err := l.decode(b)
		if err != nil {
			s.Stat("c12.hostile-frame-rejected")
			return
		}
		s.Stat("c12.hostile-frame-decoded")
		b2, err := l.encode(m)
		if err != nil {
			s.Violate("C12.decoded-not-encodable", fmt.Sprintf("%T", m), "%s: decoder accepted a %T that the encoder rejects: %v", what, m, err)
			return
		}
		m2, err := l.decode(b2)
		if err != nil {
			s.Violate("C12.not-self-consistent", fmt.Sprintf("%T", m), "%s: decoded %T re-encodes to bytes the decoder rejects: %v", what, m, err)
			return
		}
		// equality up to the canonical form (absent collection == empty collection): the canonical
		// form itself must be a fixed point
		b3, err := l.encode(m2)
		if err != nil {
			s.Violate("C12.decoded-not-encodable", fmt.Sprintf("%T", m2), "%s: canonical form of %T cannot be encoded: %v", what, m2, err)
			return
		}
		m3, err := l.decode(b3)
		if err != nil || !reflect.DeepEqual(m2, m3) || fmt.Sprintf("%T", m) != fmt.Sprintf("%T", m2) {
			s.Violate("C12.not-self-consistent", fmt.Sprintf("%T", m), "%s: decoded %T does not survive encode/decode (err=%v)", what, m, err)
			return
		}
		// and the message itself decodes back to itself (an absent collection or sub-message and an
		// empty one are the same message)
		if where, ok := canonEqual(reflect.ValueOf(m), reflect.ValueOf(m2), "", 0); !ok {
			s.Violate("C12.not-self-consistent", fmt.Sprintf("%T:value", m), "%s: a decoded %T re-encodes to bytes that decode to a different message (differs at %s)", what, m, where)
		}
	}
	for step := 0; step < steps; step++ {
		var acts []Action
		for ti := 0; ti < 3; ti++ {
			ti := ti
			if !s.Idle(ti) || y.CloseOp != nil {
				continue
			}
			acts = append(acts, Action{Name: fmt.Sprintf("op t%d", ti), W: 6, Do: func() {
				op := c.mkOp(kinds[t.Choose("op-kind", len(kinds))])
				op.CtxKind, op.Timeout = "deadline", Pick(t, "op-to", 3*time.Second, time.Second, 8*time.Second)
				ops = append(ops, op)
				s.Start(ti, op)
			}})
		}
		if l := link(); l != nil {
			if c.dn.B.link == l {
				acts = append(acts, Action{Name: "emit", W: 2, Do: func() { (&faultCtx{y: y}).emit(c.dn, false) }})
			}
			if len(s.Broker.Pend) > 0 {
				acts = append(acts, Action{Name: "release", W: 8, Do: func() { y.releaseOne() }})
			}
			if hostileLeft > 0 {
				acts = append(acts, Action{Name: "hostile", W: 4, Do: func() {
					hostileLeft--
					s.Nontrivial()
					kind := Pick(t, "hostile-kind", "wrong-type", "bitflip", "truncate", "random", "splice", "structural", "inflate", "structural", "misaddressed", "flood", "conflicting-open-response")
					if kind == "conflicting-open-response" && l.unrel != nil && t.Bool("ack-on-the-datagram-side-after-garbage", 1, 2) {
						// an undecodable frame on the reliable side (its reader may give up), then a well-formed
						// upstream ack arriving on the datagram side, where acks do not belong
						l.pushRaw([]byte{0xff, 0xfe, 0xfd, 0x01})
						l.DeliverAll()
						s.Wait()
						if l.pushUnreliable(&message.UpstreamChunkAck{StreamIDAlias: c.up.B.aliasOn[l.ID], Results: []*message.UpstreamChunkResult{{SequenceNumber: 1, ResultCode: message.ResultCodeSucceeded, ResultString: "ok"}}}) {
							s.Stat("fault.corrupt-ack-on-datagram-side")
						}
						s.Wait()
						s.Logf("hostile: garbage on the reliable side, then an upstream ack on the datagram side")
						return
					}
					if kind == "conflicting-open-response" {
						// a well-formed, successful answer to an outstanding upstream open that names the
						// stream id of a stream the client already has (under another alias)
						for _, p := range append([]*pend(nil), s.Broker.Pend...) {
							r, ok := p.Msg.(*message.UpstreamOpenResponse)
							if !ok || p.Link != l || c.up.B == nil {
								continue
							}
							s.Broker.Drop(p)
							l.push(&message.UpstreamOpenResponse{RequestID: r.RequestID, AssignedStreamID: c.up.B.ID, AssignedStreamIDAlias: r.AssignedStreamIDAlias,
								ResultCode: message.ResultCodeSucceeded, ResultString: "OK", DataIDAliases: map[uint32]*message.DataID{}, ExtensionFields: &message.UpstreamOpenResponseExtensionFields{}})
							l.DeliverAll()
							s.Stat("fault.corrupt-conflicting-open-response")
							s.Logf("hostile: open response %d reuses the stream id of u0 under alias %d", r.RequestID, r.AssignedStreamIDAlias)
							return
						}
						s.Stat("c12.conflicting-open-response-skipped")
						return
					}
					s.Stat("fault.corrupt-" + kind)
					// base frame: the next pending reply if any, else a fresh pong-like frame
					var base []byte
					var reqID uint32
					haveReq := false
					if len(s.Broker.Pend) > 0 {
						p := s.Broker.Pend[t.Choose("hostile-pend", len(s.Broker.Pend))]
						if r, ok := p.Msg.(message.Request); ok {
							reqID, haveReq = r.GetRequestID(), true
						}
						if p.Msg != nil {
							base, _ = l.encode(p.Msg)
						}
						if kind != "wrong-type" || haveReq {
							s.Broker.Drop(p)
						}
					}
					if base == nil {
						base, _ = l.encode(&message.UpstreamChunkAck{StreamIDAlias: 1, Results: []*message.UpstreamChunkResult{{SequenceNumber: 1, ResultCode: message.ResultCodeSucceeded, ResultString: "ok"}},
							DataIDAliases: map[uint32]*message.DataID{3: {Name: "n", Type: "t"}}})
					}
					var out []byte
					switch kind {
					case "structural":
						var pingID uint32
						if c := l.bc; c != nil && len(c.Pings) > 0 {
							pingID = c.Pings[len(c.Pings)-1].ID
						}
						if haveReq {
							pingID = reqID
						}
						var what string
						out, what = structuralHostile(s, l, c.up.B.aliasOn[l.ID], c.dn.B.Alias, pingID)
						s.Logf("hostile: structural %s", what)
						if out == nil {
							out = []byte{}
						}
					case "flood":
						// far more well-formed stream messages than any internal queue holds (acks for the
						// live upstream, about chunks it never sent): afterwards the read path still takes
						// frames off the transport - a broker ping is answered without any clock advance
						alias := c.up.B.aliasOn[l.ID]
						nf := Pick(t, "flood-n", 1200, 300, 2500)
						pingAnswered := func() (uint32, bool) {
							id := s.Broker.EmitPing(l)
							l.DeliverAll()
							s.Wait()
							l.IngestAll()
							if bcn := l.bc; bcn != nil {
								for _, p := range bcn.Pongs {
									if p == id {
										return id, true
									}
								}
							}
							return id, false
						}
						if _, ok := pingAnswered(); !ok {
							// an earlier hostile frame already ended this connection's reader (answered with
							// an error; keepalive will replace the connection): nothing to learn here
							s.Stat("c12.flood-skipped-reader-gone")
							return
						}
						for k := 0; k < nf; k++ {
							l.push(&message.UpstreamChunkAck{StreamIDAlias: alias, Results: []*message.UpstreamChunkResult{{SequenceNumber: uint32(100000 + k), ResultCode: message.ResultCodeSucceeded, ResultString: "flood"}}})
						}
						l.DeliverAll()
						s.Wait()
						id, answered := pingAnswered()
						if !answered && l.Alive() {
							s.Violate("C12.read-path-wedged", "ack-flood", "after %d well-formed acks for the live upstream a broker ping (id %d) is not answered: the read path no longer takes frames off the transport", nf, id)
						}
						s.Logf("hostile: flood of %d acks", nf)
						return
					case "misaddressed":
						// well-formed stream messages for addresses nobody owns
						spontaneousMisaddressed(s, l, c.dn.B.Alias, t.Choose("spont-kind", 7))
						l.DeliverAll()
						s.Logf("hostile: misaddressed stream message")
						return
					case "wrong-type":
						if !haveReq {
							// an outstanding ping id if there is one
							if c := l.bc; c != nil && len(c.Pings) > 0 {
								reqID, haveReq = c.Pings[len(c.Pings)-1].ID, true
							}
						}
						m := wrongTypeMessage(t.Choose("wrong-type-kind", 12), reqID)
						out, _ = l.encode(m)
						s.Logf("hostile: %T bearing request id %d", m, reqID)
					case "bitflip":
						out = append([]byte(nil), base...)
						for k := 0; k < Pick(t, "flips", 1, 2, 5); k++ {
							if len(out) > 0 {
								i := t.Choose("flip-pos", len(out))
								out[i] ^= byte(1 << t.Choose("flip-bit", 8))
							}
						}
					case "truncate":
						out = base[:t.Choose("trunc-len", len(base)+1)]
					case "random":
						out = make([]byte, Pick(t, "rand-len", 1, 0, 7, 64, 300))
						for i := range out {
							out[i] = byte(t.Choose("rand-byte", 256))
						}
					case "splice":
						cut := t.Choose("splice-at", len(base)+1)
						out = append(append([]byte(nil), base[:cut]...), prevFrame...)
					case "inflate":
						// turn small bytes into large varint-ish values
						out = append([]byte(nil), base...)
						for i := range out {
							if out[i] > 0 && out[i] < 8 && t.Bool("inflate-here", 1, 3) {
								out[i] = 0xff
							}
						}
					}
					prevFrame = base
					checkDecoder(l, out, kind)
					l.pushRaw(out)
					l.DeliverAll()
					s.Logf("hostile: %s frame of %d bytes delivered", kind, len(out))
				}})
			}
		}
		acts = append(acts, Action{Name: "net", W: 6, Do: func() {
			y.flushLinks()
			// pings are always answered unless a hostile frame replaced the pong
			for _, p := range append([]*pend(nil), s.Broker.Pend...) {
				if p.Kind == "pong" && t.Bool("pong-now", 3, 4) {
					s.Broker.Release(p, nil)
				}
			}
			y.flushLinks()
		}})
		acts = append(acts, Action{Name: "advance", W: 5, Do: func() {
			s.Advance(Pick(t, "adv", 100*time.Millisecond, 10*time.Millisecond, 500*time.Millisecond, time.Second))
		}})
		s.Step(acts)
	}
	// every call stays within its deadline
	s.Broker.Cfg.AutoReq, s.Broker.Cfg.AutoAck, s.Broker.Cfg.AutoPong, s.Broker.Cfg.AutoCallAck = true, true, true, true
	for i := 0; i < 30; i++ {
		y.Pump()
		y.Advance(500 * time.Millisecond)
	}
	for _, op := range ops {
		late := time.Duration(0)
		if !op.harvested {
			late = s.Now() - op.InvokeT - op.Timeout
		} else {
			late = op.ReturnT - op.InvokeT - op.Timeout
		}
		if late > time.Second {
			s.Violate("C12.call-unbounded", op.Name, "%s with a %v deadline on a session that received hostile frames: %s", op.Name, op.Timeout, lateString(op, late))
		}
	}
	// the session (or its successor after reconnect) is usable again
	for _, tk := range s.tasks {
		if tk.busy != nil {
			s.CancelOp(tk.busy)
		}
	}
	for i := 0; i < 40; i++ {
		y.Pump()
		if link() != nil && !s.AnyBusy() && i > 10 {
			break
		}
		y.Advance(time.Second)
	}
	if y.CloseOp == nil && !s.AnyBusy() {
		op := c.mkOp("SendMetadata")
		op.CtxKind, op.Timeout = "deadline", 20*time.Second
		s.Start(3, op)
		y.PumpUntil(func() bool { return op.harvested }, time.Second, 25*time.Second)
		if !op.harvested || op.Err != nil {
			s.Violate("C12.session-unusable", errClass(op.Err), "40 s after the last hostile frame (broker healthy, redial possible) SendMetadata with a 20 s deadline: returned=%v err=%s", op.harvested, errString(op.Err))
		} else {
			// a downstream can still be opened and closed (nothing left a lock behind)
			od := c.mkOp("OpenDownstream")
			od.CtxKind, od.Timeout = "deadline", 20*time.Second
			s.Start(3, od)
			y.PumpUntil(func() bool { return od.harvested }, time.Second, 25*time.Second)
			if !od.harvested {
				s.Violate("C12.hangs-after-hostile-frame", "OpenDownstream", "after hostile frames OpenDownstream with a 20 s deadline never returns although the broker answers")
			} else if h, ok := od.Meta.(*downH); ok && h.D != nil {
				cl := y.closeDownOp(h)
				cl.CtxKind, cl.Timeout = "deadline", 20*time.Second
				s.Start(3, cl)
				y.PumpUntil(func() bool { return cl.harvested }, time.Second, 25*time.Second)
				if !cl.harvested {
					s.Violate("C12.hangs-after-hostile-frame", "Downstream.Close", "after hostile frames Downstream.Close with a 20 s deadline never returns although the broker answers")
				}
			}
		}
	}
	// oversize gate of the encoding transport
	oracleMaxMessageSize(s, y)
	s.sample = map[string]any{"ops": len(ops), "hostile_frames_left": hostileLeft, "encoding": string(y.Enc)}
	if y.CloseOp == nil && s.Idle(3) {
		cop := y.closeConnOp()
		cop.CtxKind, cop.Timeout = "deadline", 20*time.Second
		s.Start(3, cop)
		y.PumpUntil(func() bool { return cop.harvested }, time.Second, 25*time.Second)
	}
	y.teardown()
}

// wrongTypeMessage builds a valid message of some type bearing request id id.
func wrongTypeMessage(k int, id uint32) message.Message {
	rid := message.RequestID(id)
	switch k {
	case 0:
		return &message.UpstreamOpenResponse{RequestID: rid, AssignedStreamID: mkUUID(0xCC, 1), AssignedStreamIDAlias: 77, ResultCode: message.ResultCodeSucceeded, DataIDAliases: map[uint32]*message.DataID{}}
	case 1:
		return &message.UpstreamMetadataAck{RequestID: rid, ResultCode: message.ResultCodeSucceeded}
	case 2:
		return &message.DownstreamOpenResponse{RequestID: rid, AssignedStreamID: mkUUID(0xCC, 2), ResultCode: message.ResultCodeSucceeded}
	case 3:
		return &message.Pong{RequestID: rid}
	case 4:
		return &message.UpstreamCloseResponse{RequestID: rid, ResultCode: message.ResultCodeSucceeded}
	case 5:
		return &message.DownstreamCloseResponse{RequestID: rid, ResultCode: message.ResultCodeSucceeded}
	case 6:
		return &message.UpstreamResumeResponse{RequestID: rid, AssignedStreamIDAlias: 5, ResultCode: message.ResultCodeSucceeded}
	case 7:
		return &message.DownstreamResumeResponse{RequestID: rid, ResultCode: message.ResultCodeSucceeded}
	case 8:
		return &message.ConnectResponse{RequestID: rid, ResultCode: message.ResultCodeSucceeded}
	case 9:
		return &message.UpstreamOpenRequest{RequestID: rid, SessionID: "hostile"}
	case 10:
		return &message.ConnectRequest{RequestID: rid, NodeID: "hostile"}
	default:
		return &message.UpstreamMetadata{RequestID: rid, Metadata: &message.BaseTime{Name: "hostile", BaseTime: time.Unix(1_700_000_000, 0).UTC()}}
	}
}

// oracleMaxMessageSize feeds frames around a configured maximum to encoding.Transport.
func oracleMaxMessageSize(s *Sim, y *Sys) {
	t := s.T
	max := Pick(t, "max-size", 64, 10, 200, 1000)
	enc := s.Net.Links[0].enc
	msg := &message.UpstreamCall{CallID: "c", Name: "n", Type: "t", Payload: bytes.Repeat([]byte("x"), Pick(t, "max-payload", 40, 0, 60, 190, 995))}
	var buf bytes.Buffer
	if _, err := enc.EncodeTo(&buf, msg); err != nil {
		return
	}
	frame := buf.Bytes()
	valid := true
	switch Pick(t, "max-shape", "well-formed", "well-formed", "padded", "garbage") {
	case "padded":
		// a complete message followed by filler (white space for JSON, zero bytes otherwise)
		pad := byte(0)
		if s.Net.Links[0].cfg.EncodingName == transport.EncodingNameJSON {
			pad = ' '
		}
		frame = append(append([]byte(nil), frame...), bytes.Repeat([]byte{pad}, Pick(t, "max-pad", 1, 30, 300, 2000))...)
		valid = false
	case "garbage":
		n := Pick(t, "max-garbage", 5, 65, 300, 1200)
		frame = make([]byte, n)
		for i := range frame {
			frame[i] = byte(t.Choose("max-garbage-byte", 256))
		}
		valid = false
	}
	rw := &oneShot{frame: frame}
	tr := encoding.NewTransport(&encoding.TransportConfig{Transport: rw, Encoding: enc, MaxMessageSize: encoding.Size(max)})
	m, err := tr.Read()
	switch {
	case len(frame) > max && !iscperrors.Is(err, iscperrors.ErrMessageTooLarge):
		s.Violate("C12.oversize-accepted", "", "frame of %d bytes with MaxMessageSize %d: Read returned (%T, %v), want the too-large error", len(frame), max, m, err)
	case valid && len(frame) <= max && err != nil:
		s.Violate("C12.size-gate-rejects-valid", "", "frame of %d bytes with MaxMessageSize %d rejected: %v", len(frame), max, err)
	}
}

// setEnumFields sets every field of a named int32 type (the generated enums) to a small number.
func setEnumFields(t *Tape, v reflect.Value, depth int) int {
	// one enum field (tape-chosen) gets a tape-chosen small number; the others keep their valid
	// values, so that the frame stays decodable whenever the chosen number is a member of the enum
	total := walkEnumFields(v, 0, nil)
	if total == 0 {
		return 0
	}
	target, val := t.Choose("enum-field", total), int64(t.Choose("enum-v", 128))
	k := 0
	walkEnumFields(v, 0, func(f reflect.Value) {
		if k == target {
			f.SetInt(val)
		}
		k++
	})
	return 1
}

// walkEnumFields visits every settable enum-like field (named int32 type) under v and returns their number.
func walkEnumFields(v reflect.Value, depth int, visit func(reflect.Value)) int {
	for v.Kind() == reflect.Ptr || v.Kind() == reflect.Interface {
		if v.IsNil() {
			return 0
		}
		v = v.Elem()
	}
	if depth > 6 {
		return 0
	}
	n := 0
	switch v.Kind() {
	case reflect.Struct:
		for i := 0; i < v.NumField(); i++ {
			f := v.Field(i)
			if !f.CanSet() || strings.HasPrefix(v.Type().Field(i).Name, "XXX_") {
				continue
			}
			if f.Kind() == reflect.Int32 && f.Type().Name() != "int32" {
				if visit != nil {
					visit(f)
				}
				n++
				continue
			}
			n += walkEnumFields(f, depth+1, visit)
		}
	case reflect.Slice:
		for i := 0; i < v.Len(); i++ {
			n += walkEnumFields(v.Index(i), depth+1, visit)
		}
	}
	return n
}

// canonEqual compares two decoded messages up to the canonical form: nil and empty collections are
// equal, a nil pointer equals a pointer to a value that is entirely zero/empty.
func canonEqual(a, b reflect.Value, path string, depth int) (string, bool) {
	if depth > 12 {
		return path, true
	}
	for a.IsValid() && a.Kind() == reflect.Interface && !a.IsNil() {
		a = a.Elem()
	}
	for b.IsValid() && b.Kind() == reflect.Interface && !b.IsNil() {
		b = b.Elem()
	}
	empty := func(v reflect.Value) bool {
		if !v.IsValid() {
			return true
		}
		switch v.Kind() {
		case reflect.Ptr, reflect.Interface:
			return v.IsNil() || isCanonZero(v.Elem(), 0)
		case reflect.Slice, reflect.Map:
			return v.Len() == 0
		}
		return isCanonZero(v, 0)
	}
	if empty(a) && empty(b) {
		return path, true
	}
	if !a.IsValid() || !b.IsValid() {
		return path, false
	}
	if a.Kind() == reflect.Ptr || b.Kind() == reflect.Ptr {
		if a.Kind() == reflect.Ptr && a.IsNil() || b.Kind() == reflect.Ptr && b.IsNil() {
			return path, false
		}
		if a.Kind() == reflect.Ptr {
			a = a.Elem()
		}
		if b.Kind() == reflect.Ptr {
			b = b.Elem()
		}
		return canonEqual(a, b, path, depth+1)
	}
	if a.Type() != b.Type() {
		return path + "(type)", false
	}
	switch a.Kind() {
	case reflect.Struct:
		for i := 0; i < a.NumField(); i++ {
			if !a.Type().Field(i).IsExported() {
				continue
			}
			if w, ok := canonEqual(a.Field(i), b.Field(i), path+"."+a.Type().Field(i).Name, depth+1); !ok {
				return w, false
			}
		}
		return path, true
	case reflect.Slice, reflect.Array:
		if a.Len() != b.Len() {
			return path + "(len)", false
		}
		for i := 0; i < a.Len(); i++ {
			if w, ok := canonEqual(a.Index(i), b.Index(i), fmt.Sprintf("%s[%d]", path, i), depth+1); !ok {
				return w, false
			}
		}
		return path, true
	case reflect.Map:
		if a.Len() != b.Len() {
			return path + "(len)", false
		}
		for _, k := range a.MapKeys() {
			bv := b.MapIndex(k)
			if !bv.IsValid() {
				return fmt.Sprintf("%s[%v]", path, k), false
			}
			if w, ok := canonEqual(a.MapIndex(k), bv, fmt.Sprintf("%s[%v]", path, k), depth+1); !ok {
				return w, false
			}
		}
		return path, true
	}
	if a.CanInterface() && b.CanInterface() {
		return path, reflect.DeepEqual(a.Interface(), b.Interface())
	}
	return path, true
}

func isCanonZero(v reflect.Value, depth int) bool {
	if !v.IsValid() || depth > 12 {
		return true
	}
	switch v.Kind() {
	case reflect.Ptr, reflect.Interface:
		return v.IsNil() || isCanonZero(v.Elem(), depth+1)
	case reflect.Slice, reflect.Map:
		return v.Len() == 0
	case reflect.Struct:
		for i := 0; i < v.NumField(); i++ {
			if v.Type().Field(i).IsExported() && !isCanonZero(v.Field(i), depth+1) {
				return false
			}
		}
		return true
	}
	return v.IsZero()
}

type oneShot struct{ frame []byte }

func (o *oneShot) Read() ([]byte, error)       { return o.frame, nil }
func (o *oneShot) Write([]byte) error          { return nil }
func (o *oneShot) Close() error                { return nil }
func (o *oneShot) RxBytesCounterValue() uint64 { return 0 }
func (o *oneShot) TxBytesCounterValue() uint64 { return 0 }

// ---------------------------------------------------------------------------
// structure-aware hostile frames: a valid broker->client message is converted to its
// wire-schema form, one randomly chosen field is damaged (absent oneof / sub-message,
// wrong-length uuid or byte field, unknown enum number, emptied or duplicated list, extreme
// integer), and the result is encoded with the link's encoding.

func structuralHostile(s *Sim, l *Link, upAlias, downAlias uint32, outstanding uint32) ([]byte, string) {
	t := s.T
	info := message.UpstreamInfo{SessionID: "s", SourceNodeID: "node-1", StreamID: mkUUID(0xE0, 1)}
	id := message.DataID{Name: "n", Type: "t"}
	var base message.Message
	switch t.Choose("sh-type", 11) {
	case 10:
		// an empty chunk (no groups) is legal; its damaged variants are the interesting ones
		base = &message.DownstreamChunk{StreamIDAlias: downAlias, UpstreamOrAlias: &info, StreamChunk: &message.StreamChunk{SequenceNumber: 2}}
	case 0, 1, 2:
		base = &message.DownstreamChunk{StreamIDAlias: downAlias, UpstreamOrAlias: &info, StreamChunk: &message.StreamChunk{SequenceNumber: 1,
			DataPointGroups: []*message.DataPointGroup{{DataIDOrAlias: &id, DataPoints: []*message.DataPoint{{ElapsedTime: time.Second, Payload: []byte("p")}}}}}}
	case 3:
		base = &message.UpstreamChunkAck{StreamIDAlias: upAlias, Results: []*message.UpstreamChunkResult{{SequenceNumber: 1, ResultCode: message.ResultCodeSucceeded, ResultString: "ok"}},
			DataIDAliases: map[uint32]*message.DataID{7: &id}}
	case 4:
		base = &message.DownstreamMetadata{RequestID: 91, StreamIDAlias: downAlias, SourceNodeID: "node-1", Metadata: &message.BaseTime{Name: "b", BaseTime: time.Unix(1_700_000_000, 0).UTC()}}
	case 5:
		base = &message.UpstreamOpenResponse{RequestID: message.RequestID(outstanding), AssignedStreamID: mkUUID(0xCC, 3), AssignedStreamIDAlias: 9, ResultCode: message.ResultCodeSucceeded, DataIDAliases: map[uint32]*message.DataID{1: &id}}
	case 6:
		base = &message.DownstreamOpenResponse{RequestID: message.RequestID(outstanding), AssignedStreamID: mkUUID(0xCC, 4), ResultCode: message.ResultCodeSucceeded}
	case 7:
		base = &message.DownstreamCall{CallID: "c", RequestCallID: "r", SourceNodeID: "n", Name: "x", Type: "t", Payload: []byte("p")}
	case 8:
		base = &message.DownstreamChunkAckComplete{StreamIDAlias: downAlias, AckID: 1, ResultCode: message.ResultCodeSucceeded}
	default:
		base = &message.DownstreamMetadata{RequestID: 93, StreamIDAlias: downAlias, SourceNodeID: "node-2", Metadata: &message.UpstreamOpen{StreamID: mkUUID(0xCC, 5), SessionID: "s", QoS: message.QoSReliable}}
	}
	pb, err := convert.WireToProto(base)
	if err != nil {
		return nil, ""
	}
	if t.Bool("sh-enum-sweep", 1, 2) {
		// only the enum-like fields (result codes, QoS, ...) are changed, each to some small number:
		// every member of the enums, including the ones the implementation rarely meets
		n := setEnumFields(t, reflect.ValueOf(pb), 0)
		if n > 0 {
			var out []byte
			if l.cfg.EncodingName == transport.EncodingNameJSON {
				var buf bytes.Buffer
				m := jsonpb.Marshaler{}
				if err := m.Marshal(&buf, pb); err != nil {
					return nil, ""
				}
				out = buf.Bytes()
			} else if out, err = proto.Marshal(pb); err != nil {
				return nil, ""
			}
			return out, fmt.Sprintf("%T:enum-sweep(%d fields)", base, n)
		}
	}
	what := damage(t, reflect.ValueOf(pb), 0)
	for k := t.Choose("dmg-more", 3); k > 0; k-- { // up to three damaged fields
		what += "+" + damage(t, reflect.ValueOf(pb), 0)
	}
	var out []byte
	if l.cfg.EncodingName == transport.EncodingNameJSON {
		var buf bytes.Buffer
		m := jsonpb.Marshaler{}
		if err := m.Marshal(&buf, pb); err != nil {
			return nil, ""
		}
		out = buf.Bytes()
	} else {
		out, err = proto.Marshal(pb)
		if err != nil {
			return nil, ""
		}
	}
	return out, fmt.Sprintf("%T:%s", base, what)
}

// damage walks into v and damages one field; it returns a description.
func damage(t *Tape, v reflect.Value, depth int) string {
	for v.Kind() == reflect.Ptr || v.Kind() == reflect.Interface {
		if v.IsNil() {
			return "nil"
		}
		v = v.Elem()
	}
	if v.Kind() != reflect.Struct {
		return "leaf"
	}
	var cands []int
	for i := 0; i < v.NumField(); i++ {
		f := v.Field(i)
		if !f.CanSet() || strings.HasPrefix(v.Type().Field(i).Name, "XXX_") {
			continue
		}
		cands = append(cands, i)
	}
	if len(cands) == 0 {
		return "empty"
	}
	i := cands[t.Choose("dmg-field", len(cands))]
	f := v.Field(i)
	name := v.Type().Field(i).Name
	switch f.Kind() {
	case reflect.Ptr, reflect.Interface:
		if f.IsNil() || depth > 4 || t.Bool("dmg-nil", 1, 2) {
			f.Set(reflect.Zero(f.Type()))
			return name + "=absent"
		}
		return name + "." + damage(t, f, depth+1)
	case reflect.Slice:
		if f.Type().Elem().Kind() == reflect.Uint8 {
			switch t.Choose("dmg-bytes", 3) {
			case 0:
				f.SetBytes(nil)
				return name + "=empty-bytes"
			case 1:
				b := f.Bytes()
				if len(b) > 1 {
					f.SetBytes(b[:len(b)/2])
				} else {
					f.SetBytes([]byte{1, 2, 3})
				}
				return name + "=wrong-length"
			default:
				f.SetBytes(append(append([]byte(nil), f.Bytes()...), 1, 2, 3, 4, 5))
				return name + "=too-long"
			}
		}
		if f.Len() > 0 && t.Bool("dmg-into-slice", 1, 2) {
			return name + "[0]." + damage(t, f.Index(0), depth+1)
		}
		if f.Len() > 0 && t.Bool("dmg-dup", 1, 2) {
			f.Set(reflect.Append(f, f.Index(0)))
			return name + "=duplicated-element"
		}
		f.Set(reflect.Zero(f.Type()))
		return name + "=empty-list"
	case reflect.Map:
		f.Set(reflect.Zero(f.Type()))
		return name + "=empty-map"
	case reflect.Int32, reflect.Int64, reflect.Int:
		if t.Bool("dmg-int-small", 1, 2) {
			// every small number: known enum members the code rarely meets as well as their unknown neighbours
			f.SetInt(int64(t.Choose("dmg-int-small-v", 128)))
			return name + "=small-number"
		}
		f.SetInt(Pick(t, "dmg-int", int64(9999), -1, 1<<31-1, 0))
		return name + "=odd-number"
	case reflect.Uint32, reflect.Uint64:
		f.SetUint(Pick(t, "dmg-uint", uint64(0), 1<<32-1, 424242))
		return name + "=odd-number"
	case reflect.String:
		f.SetString(Pick(t, "dmg-str", "", "\xff\xfe", strings.Repeat("z", 300)))
		return name + "=odd-string"
	case reflect.Bool:
		f.SetBool(!f.Bool())
		return name + "=flipped"
	case reflect.Struct:
		return name + "." + damage(t, f.Addr(), depth+1)
	}
	return name + "=untouched"
}
