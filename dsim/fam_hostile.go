package dsim

import (
	"bytes"
	"fmt"
	"reflect"
	"time"

	"github.com/aptpod/iscp-go/encoding"
	iscperrors "github.com/aptpod/iscp-go/errors"
	"github.com/aptpod/iscp-go/iscp"
	"github.com/aptpod/iscp-go/message"
)

// C12 (the part simulation can reach): hostile bytes arriving on a live
// session. Broker->client frames are bit-flipped, truncated, spliced, replaced
// by random bytes or by a *valid* message of another type that bears an
// outstanding request id. The process must survive, every call must stay within
// its deadline, a decoded frame must re-encode to itself, oversize frames must be
// refused with the too-large error.

func init() { scenarios["C12"] = runC12 }

func runC12(s *Sim) {
	t := s.T
	s.Family = "hostile-frames"
	bc := BrokerCfg{AutoReq: false, AutoAck: false, AutoPong: false, AutoCallAck: false, AutoAckComplete: true}
	y := newSys(s, bc)
	if t.Bool("json", 1, 3) {
		y.Enc = iscp.EncodingNameJSON
	}
	y.PingInterval = Pick(t, "ping-iv", 2*time.Second, time.Second, 5*time.Second)
	y.PingTimeout = Pick(t, "ping-to", time.Second, 2*time.Second)
	s.yieldDensity = Pick(t, "yield", 0, 0, 50)
	c := &c08{y: y}
	s.NewTasks(4)
	s.Broker.Cfg.AutoReq, s.Broker.Cfg.AutoAck, s.Broker.Cfg.AutoPong = true, true, true
	s.Start(3, y.connectOp())
	s.Wait()
	y.Pump()
	if y.ConnOp = s.ops[0]; !y.ConnOp.harvested || y.ConnOp.Err != nil {
		s.HarnessError("connect did not succeed: %v", y.ConnOp.Err)
		return
	}
	up := s.Start(3, y.openUpOp(upSpec{QoS: message.QoSReliable, Policy: "immediate", CloseTimeout: 2 * time.Second}))
	s.Wait()
	y.Pump()
	dn := s.Start(3, y.openDownOp(downSpec{QoS: message.QoSReliable, Sources: []string{"node-1", "node-2"}, AckFlush: 100 * time.Millisecond}))
	s.Wait()
	y.Pump()
	if !up.harvested || up.Err != nil || !dn.harvested || dn.Err != nil {
		s.HarnessError("setup did not succeed: %v %v", up.Err, dn.Err)
		return
	}
	c.up, c.dn = y.Ups[0], y.Downs[0]
	s.Broker.Cfg.AutoReq, s.Broker.Cfg.AutoAck, s.Broker.Cfg.AutoPong, s.Broker.Cfg.AutoCallAck = false, false, false, false

	kinds := []string{"OpenUpstream", "OpenDownstream", "Write", "Flush", "ReadDataPoints", "ReadMetadata", "SendMetadata", "SendCall", "SendCallAndWait", "ReceiveCall"}
	steps := Pick(t, "steps", 40, 15, 80)
	if s.Tier == "thorough" {
		steps *= 3
	}
	hostileLeft := Pick(t, "hostile-n", 2, 1, 4, 8)
	var ops []*Op
	var prevFrame []byte
	link := func() *Link {
		for i := len(s.Net.Links) - 1; i >= 0; i-- {
			if l := s.Net.Links[i]; l.Alive() && l.bc != nil && l.bc.Connected {
				return l
			}
		}
		return nil
	}
	checkDecoder := func(l *Link, b []byte, what string) {
		// whenever the repository's decoder accepts a hostile frame, the message must re-encode and decode to itself
		m, err := l.decode(b)
		if err != nil {
			s.Stat("c12.hostile-frame-rejected")
			return
		}
		s.Stat("c12.hostile-frame-decoded")
		b2, err := l.encode(m)
		if err != nil {
			s.Violate("C12.decoded-not-encodable", fmt.Sprintf("%T", m), "%s: decoder accepted a %T that the encoder rejects: %v", what, m, err)
			return
		}
		m2, err := l.decode(b2)
		if err != nil || !reflect.DeepEqual(m, m2) {
			s.Violate("C12.not-self-consistent", fmt.Sprintf("%T", m), "%s: decoded %T does not survive encode/decode (err=%v)", what, m, err)
		}
	}
	for step := 0; step < steps; step++ {
		var acts []Action
		for ti := 0; ti < 3; ti++ {
			ti := ti
			if !s.Idle(ti) || y.CloseOp != nil {
				continue
			}
			acts = append(acts, Action{Name: fmt.Sprintf("op t%d", ti), W: 6, Do: func() {
				op := c.mkOp(kinds[t.Choose("op-kind", len(kinds))])
				op.CtxKind, op.Timeout = "deadline", Pick(t, "op-to", 3*time.Second, time.Second, 8*time.Second)
				ops = append(ops, op)
				s.Start(ti, op)
			}})
		}
		if l := link(); l != nil {
			if c.dn.B.link == l {
				acts = append(acts, Action{Name: "emit", W: 2, Do: func() { (&faultCtx{y: y}).emit(c.dn, false) }})
			}
			if len(s.Broker.Pend) > 0 {
				acts = append(acts, Action{Name: "release", W: 8, Do: func() { y.releaseOne() }})
			}
			if hostileLeft > 0 {
				acts = append(acts, Action{Name: "hostile", W: 4, Do: func() {
					hostileLeft--
					s.Nontrivial()
					kind := Pick(t, "hostile-kind", "wrong-type", "bitflip", "truncate", "random", "splice", "wrong-type", "inflate")
					s.Stat("fault.corrupt-" + kind)
					// base frame: the next pending reply if any, else a fresh pong-like frame
					var base []byte
					var reqID uint32
					haveReq := false
					if len(s.Broker.Pend) > 0 {
						p := s.Broker.Pend[t.Choose("hostile-pend", len(s.Broker.Pend))]
						if r, ok := p.Msg.(message.Request); ok {
							reqID, haveReq = r.GetRequestID(), true
						}
						if p.Msg != nil {
							base, _ = l.encode(p.Msg)
						}
						if kind != "wrong-type" || haveReq {
							s.Broker.Drop(p)
						}
					}
					if base == nil {
						base, _ = l.encode(&message.UpstreamChunkAck{StreamIDAlias: 1, Results: []*message.UpstreamChunkResult{{SequenceNumber: 1, ResultCode: message.ResultCodeSucceeded, ResultString: "ok"}},
							DataIDAliases: map[uint32]*message.DataID{3: {Name: "n", Type: "t"}}})
					}
					var out []byte
					switch kind {
					case "wrong-type":
						if !haveReq {
							// an outstanding ping id if there is one
							if c := l.bc; c != nil && len(c.Pings) > 0 {
								reqID, haveReq = c.Pings[len(c.Pings)-1].ID, true
							}
						}
						m := wrongTypeMessage(t.Choose("wrong-type-kind", 12), reqID)
						out, _ = l.encode(m)
						s.Logf("hostile: %T bearing request id %d", m, reqID)
					case "bitflip":
						out = append([]byte(nil), base...)
						for k := 0; k < Pick(t, "flips", 1, 2, 5); k++ {
							if len(out) > 0 {
								i := t.Choose("flip-pos", len(out))
								out[i] ^= byte(1 << t.Choose("flip-bit", 8))
							}
						}
					case "truncate":
						out = base[:t.Choose("trunc-len", len(base)+1)]
					case "random":
						out = make([]byte, Pick(t, "rand-len", 1, 0, 7, 64, 300))
						for i := range out {
							out[i] = byte(t.Choose("rand-byte", 256))
						}
					case "splice":
						cut := t.Choose("splice-at", len(base)+1)
						out = append(append([]byte(nil), base[:cut]...), prevFrame...)
					case "inflate":
						// turn small bytes into large varint-ish values
						out = append([]byte(nil), base...)
						for i := range out {
							if out[i] > 0 && out[i] < 8 && t.Bool("inflate-here", 1, 3) {
								out[i] = 0xff
							}
						}
					}
					prevFrame = base
					checkDecoder(l, out, kind)
					l.pushRaw(out)
					l.DeliverAll()
					s.Logf("hostile: %s frame of %d bytes delivered", kind, len(out))
				}})
			}
		}
		acts = append(acts, Action{Name: "net", W: 6, Do: func() {
			y.flushLinks()
			// pings are always answered unless a hostile frame replaced the pong
			for _, p := range append([]*pend(nil), s.Broker.Pend...) {
				if p.Kind == "pong" && t.Bool("pong-now", 3, 4) {
					s.Broker.Release(p, nil)
				}
			}
			y.flushLinks()
		}})
		acts = append(acts, Action{Name: "advance", W: 5, Do: func() {
			s.Advance(Pick(t, "adv", 100*time.Millisecond, 10*time.Millisecond, 500*time.Millisecond, time.Second))
		}})
		s.Step(acts)
	}
	// every call stays within its deadline
	s.Broker.Cfg.AutoReq, s.Broker.Cfg.AutoAck, s.Broker.Cfg.AutoPong, s.Broker.Cfg.AutoCallAck = true, true, true, true
	for i := 0; i < 30; i++ {
		y.Pump()
		y.Advance(500 * time.Millisecond)
	}
	for _, op := range ops {
		late := time.Duration(0)
		if !op.harvested {
			late = s.Now() - op.InvokeT - op.Timeout
		} else {
			late = op.ReturnT - op.InvokeT - op.Timeout
		}
		if late > time.Second {
			s.Violate("C12.call-unbounded", op.Name, "%s with a %v deadline on a session that received hostile frames: %s", op.Name, op.Timeout, lateString(op, late))
		}
	}
	// the session (or its successor after reconnect) is usable again
	for _, tk := range s.tasks {
		if tk.busy != nil {
			s.CancelOp(tk.busy)
		}
	}
	for i := 0; i < 40; i++ {
		y.Pump()
		if link() != nil && !s.AnyBusy() && i > 10 {
			break
		}
		y.Advance(time.Second)
	}
	if y.CloseOp == nil && !s.AnyBusy() {
		op := c.mkOp("SendMetadata")
		op.CtxKind, op.Timeout = "deadline", 20*time.Second
		s.Start(3, op)
		y.PumpUntil(func() bool { return op.harvested }, time.Second, 25*time.Second)
		if !op.harvested || op.Err != nil {
			s.Violate("C12.session-unusable", errClass(op.Err), "40 s after the last hostile frame (broker healthy, redial possible) SendMetadata with a 20 s deadline: returned=%v err=%s", op.harvested, errString(op.Err))
		}
	}
	// oversize gate of the encoding transport
	oracleMaxMessageSize(s, y)
	s.sample = map[string]any{"ops": len(ops), "hostile_frames_left": hostileLeft, "encoding": string(y.Enc)}
	if y.CloseOp == nil && s.Idle(3) {
		cop := y.closeConnOp()
		cop.CtxKind, cop.Timeout = "deadline", 20*time.Second
		s.Start(3, cop)
		y.PumpUntil(func() bool { return cop.harvested }, time.Second, 25*time.Second)
	}
	y.teardown()
}

// wrongTypeMessage builds a valid message of some type bearing request id id.
func wrongTypeMessage(k int, id uint32) message.Message {
	rid := message.RequestID(id)
	switch k {
	case 0:
		return &message.UpstreamOpenResponse{RequestID: rid, AssignedStreamID: mkUUID(0xCC, 1), AssignedStreamIDAlias: 77, ResultCode: message.ResultCodeSucceeded, DataIDAliases: map[uint32]*message.DataID{}}
	case 1:
		return &message.UpstreamMetadataAck{RequestID: rid, ResultCode: message.ResultCodeSucceeded}
	case 2:
		return &message.DownstreamOpenResponse{RequestID: rid, AssignedStreamID: mkUUID(0xCC, 2), ResultCode: message.ResultCodeSucceeded}
	case 3:
		return &message.Pong{RequestID: rid}
	case 4:
		return &message.UpstreamCloseResponse{RequestID: rid, ResultCode: message.ResultCodeSucceeded}
	case 5:
		return &message.DownstreamCloseResponse{RequestID: rid, ResultCode: message.ResultCodeSucceeded}
	case 6:
		return &message.UpstreamResumeResponse{RequestID: rid, AssignedStreamIDAlias: 5, ResultCode: message.ResultCodeSucceeded}
	case 7:
		return &message.DownstreamResumeResponse{RequestID: rid, ResultCode: message.ResultCodeSucceeded}
	case 8:
		return &message.ConnectResponse{RequestID: rid, ResultCode: message.ResultCodeSucceeded}
	case 9:
		return &message.UpstreamOpenRequest{RequestID: rid, SessionID: "hostile"}
	case 10:
		return &message.ConnectRequest{RequestID: rid, NodeID: "hostile"}
	default:
		return &message.UpstreamMetadata{RequestID: rid, Metadata: &message.BaseTime{Name: "hostile", BaseTime: time.Unix(1_700_000_000, 0).UTC()}}
	}
}

// oracleMaxMessageSize feeds frames around a configured maximum to encoding.Transport.
func oracleMaxMessageSize(s *Sim, y *Sys) {
	t := s.T
	max := Pick(t, "max-size", 64, 10, 200, 1000)
	enc := s.Net.Links[0].enc
	msg := &message.UpstreamCall{CallID: "c", Name: "n", Type: "t", Payload: bytes.Repeat([]byte("x"), Pick(t, "max-payload", 40, 0, 60, 190, 995))}
	var buf bytes.Buffer
	if _, err := enc.EncodeTo(&buf, msg); err != nil {
		return
	}
	frame := buf.Bytes()
	rw := &oneShot{frame: frame}
	tr := encoding.NewTransport(&encoding.TransportConfig{Transport: rw, Encoding: enc, MaxMessageSize: encoding.Size(max)})
	m, err := tr.Read()
	switch {
	case len(frame) > max && !iscperrors.Is(err, iscperrors.ErrMessageTooLarge):
		s.Violate("C12.oversize-accepted", "", "frame of %d bytes with MaxMessageSize %d: Read returned (%T, %v), want the too-large error", len(frame), max, m, err)
	case len(frame) <= max && err != nil:
		s.Violate("C12.size-gate-rejects-valid", "", "frame of %d bytes with MaxMessageSize %d rejected: %v", len(frame), max, err)
	}
}

type oneShot struct{ frame []byte }

func (o *oneShot) Read() ([]byte, error)       { return o.frame, nil }
func (o *oneShot) Write([]byte) error          { return nil }
func (o *oneShot) Close() error                { return nil }
func (o *oneShot) RxBytesCounterValue() uint64 { return 0 }
func (o *oneShot) TxBytesCounterValue() uint64 { return 0 }
