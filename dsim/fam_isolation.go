package dsim

import (
	"context"
	"fmt"
	"sort"
	"strings"
	"sync"
	"sync/atomic"
	"time"

	"github.com/anishathalye/porcupine"
	"github.com/aptpod/iscp-go/iscp"
	"github.com/aptpod/iscp-go/message"
	"github.com/google/uuid"
)

// C07: streams that share a connection are isolated.
//
//	mode system       - scripted multi-stream run; every stream's ledger, reads and hooks may
//	                    only contain that stream's own tagged data; lifecycle operations and
//	                    failures of one stream leave the others working
//	mode differential - the same script is executed twice in two bubbles: in full, and projected
//	                    onto one stream (actions naming other streams dropped); what the projected
//	                    stream delivered, lost, reported and returned must be equal in both runs
//	mode storage      - the in-memory sent storage driven directly by concurrent tasks; the
//	                    recorded history must be linearizable (porcupine) against a per-stream map

func init() { scenarios["C07"] = runC07 }

type isoAct struct {
	Kind   string // write flush emit read advance pump cut close-stream refuse
	Stream int    // index into streams (ups first, then downs); -1 = connection level
	ID     int
	Sizes  []int
	D      time.Duration
	KeepC  int
	KeepB  int
	Target int // slow-close: the upstream whose Close is abandoned (the slow-broker window itself is connection level)
}

type isoStream struct {
	Up   bool
	QoS  message.QoS
	Spec upSpec
	Late bool // opened by an "open-late" action, not at the start
}

type isoScript struct {
	Streams []isoStream
	Acts    []isoAct
	Enc     iscp.EncodingName
	PingIv  time.Duration
	PingTo  time.Duration
	Focus   int  // stream whose behaviour is compared in differential mode
	Reuse   bool // the broker reuses the stream id alias of a closed upstream
	HasCut  bool
	Unrel   bool // the connection has a datagram side (unreliable streams use it)
}

type isoObs struct {
	Arrived []string // sorted point keys that reached the broker (deduplicated)
	Lost    []string // accepted but never arrived
	Writes  []string // per write: error class
	Reads   []string // per successful read: upstream session + seq + first payload
	Acked   []string // downstream results acknowledged
	Closed  int
	Resumed int
	Final   string // working / closed
	Foreign []string
	// accepted points of an interval-flushed upstream that were written to the link later than one
	// flush interval after the write had returned (only recorded in scripts without cuts)
	LateFlush []string
	// what the ack hook was told by the end of the run (sequence number and code), sorted
	AckHook []string
}

type isoCarry struct {
	script *isoScript
	full   *isoObs
}

func runC07(s *Sim) {
	if s.Phase == 0 {
		mode := Pick(s.T, "mode", "system", "differential", "storage", "differential")
		s.Family = "isolation-" + mode
		if mode == "storage" {
			runC07Storage(s)
			return
		}
		sc := genIsoScript(s)
		obs := execIsoScript(s, sc, -1)
		if mode == "differential" {
			s.Carry = &isoCarry{script: sc, full: obs[sc.Focus]}
			s.Again = true
		}
		return
	}
	c := s.Carry.(*isoCarry)
	obs := execIsoScript(s, c.script, c.script.Focus)
	compareIso(s, c.script, c.full, obs[c.script.Focus])
}

func genIsoScript(s *Sim) *isoScript {
	t := s.T
	sc := &isoScript{Enc: iscp.EncodingNameProtobuf}
	if t.Bool("json", 1, 4) {
		sc.Enc = iscp.EncodingNameJSON
	}
	sc.PingIv = Pick(t, "ping-iv", 5*time.Second, 2*time.Second, 10*time.Second)
	sc.PingTo = Pick(t, "ping-to", 2*time.Second, time.Second)
	nUp := Pick(t, "nup", 2, 2, 3, 1)
	nDown := Pick(t, "ndown", 1, 0, 2)
	if nUp+nDown < 2 {
		nDown = 1
	}
	for i := 0; i < nUp; i++ {
		sp := upSpec{QoS: Pick(t, "qos", message.QoSReliable, message.QoSUnreliable, message.QoSPartial, message.QoSReliable),
			Policy: Pick(t, "policy", "immediate", "size", "interval", "none", "default"), Size: 200, Interval: 200 * time.Millisecond,
			// 0 = the option is not passed at all (library default, 10 s); streams differ in their options
			CloseTimeout: Pick(t, "closeto", 5*time.Second, 0, 200*time.Millisecond)}
		sc.Streams = append(sc.Streams, isoStream{Up: true, QoS: sp.QoS, Spec: sp})
	}
	for i := 0; i < nDown; i++ {
		sc.Streams = append(sc.Streams, isoStream{Up: false, QoS: Pick(t, "dqos", message.QoSReliable, message.QoSUnreliable)})
	}
	// an upstream whose Close is abandoned by the application while the broker is slow (late ack, late
	// close response), followed by a new upstream that is given the same stream id alias
	slowClose, lateStream := -1, -1
	if nUp > 0 && t.Bool("abandoned-close+alias-reuse", 1, 4) {
		sc.Reuse = true
		slowClose = t.Choose("slow-close-which", nUp)
		sc.Streams[slowClose].Spec.CloseTimeout = 200 * time.Millisecond
		sp := upSpec{QoS: Pick(t, "qos", message.QoSReliable, message.QoSUnreliable, message.QoSPartial, message.QoSReliable),
			Policy: Pick(t, "policy", "immediate", "size", "interval", "none", "default"), Size: 200, Interval: 200 * time.Millisecond, CloseTimeout: 5 * time.Second}
		lateStream = len(sc.Streams)
		sc.Streams = append(sc.Streams, isoStream{Up: true, QoS: sp.QoS, Spec: sp, Late: true})
	}
	// an upstream closed by the application while the broker is slow to acknowledge (3 s: longer than
	// a short close timeout, shorter than the default one): how long its Close waits is its own matter
	slowAckClose := -1
	if nUp > 0 && slowClose < 0 && t.Bool("close-during-slow-acks", 1, 4) {
		slowAckClose = t.Choose("slow-ack-close-which", nUp)
	}
	// an OpenUpstream that the broker never answers and whose caller gives up (short deadline): the
	// streams that are already open must not notice
	unanswered := -1
	if t.Bool("unanswered-open", 1, 4) {
		sp := upSpec{QoS: message.QoSReliable, Policy: "immediate", CloseTimeout: 5 * time.Second}
		unanswered = len(sc.Streams)
		sc.Streams = append(sc.Streams, isoStream{Up: true, QoS: sp.QoS, Spec: sp, Late: true})
	}
	// a downstream whose consumer stops reading while the broker keeps sending (far beyond the
	// documented buffering): that stream may lose chunks, its neighbours may not notice
	flood := -1
	if nDown > 0 && t.Bool("flood-one-downstream", 1, 12) {
		flood = nUp + t.Choose("flood-which", nDown)
	}
	// a connection with a datagram side that stops taking data for a while (a full send queue): the
	// unreliable streams wait, the others are not concerned
	sc.Unrel = t.Bool("datagram-side", 1, 3)
	stallDatagrams := sc.Unrel && !sc.Reuse && t.Bool("datagram-side-stalls", 1, 2)
	sc.Focus = t.Choose("focus", len(sc.Streams))
	n := Pick(t, "len", 40, 20, 80)
	if s.Tier == "thorough" {
		n *= 2
	}
	cuts := Pick(t, "cuts", 1, 0, 1, 2)
	closes := Pick(t, "closes", 0, 1)
	for i := 0; i < n; i++ {
		if slowClose >= 0 && i == n/3 {
			sc.Acts = append(sc.Acts, isoAct{Kind: "slow-close", Stream: -1, Target: slowClose, ID: t.Choose("w-id", 3)})
			sc.Acts = append(sc.Acts, isoAct{Kind: "open-late", Stream: lateStream})
		}
		if stallDatagrams && i == n/5 {
			sc.Acts = append(sc.Acts, isoAct{Kind: "stall-datagrams", Stream: -1})
		}
		if stallDatagrams && i == (4*n)/5 {
			sc.Acts = append(sc.Acts, isoAct{Kind: "resume-datagrams", Stream: -1})
		}
		if flood >= 0 && i == n/4 {
			sc.Acts = append(sc.Acts, isoAct{Kind: "flood", Stream: flood})
		}
		if slowAckClose >= 0 && i == (2*n)/3 {
			sc.Acts = append(sc.Acts, isoAct{Kind: "close-during-slow-acks", Stream: -1, Target: slowAckClose, ID: t.Choose("w-id", 3)})
		}
		if unanswered >= 0 && i == n/2 {
			sc.Acts = append(sc.Acts, isoAct{Kind: "unanswered-open", Stream: -1, Target: unanswered})
		}
		st := t.Choose("a-stream", len(sc.Streams))
		up := sc.Streams[st].Up
		k := t.Choose("a-kind", 12)
		switch {
		case k <= 4:
			if up {
				nn := Pick(t, "w-n", 1, 2, 4)
				sizes := make([]int, nn)
				for j := range sizes {
					sizes[j] = Pick(t, "w-size", 24, 100, 400)
				}
				sc.Acts = append(sc.Acts, isoAct{Kind: "write", Stream: st, ID: t.Choose("w-id", 3), Sizes: sizes})
			} else {
				sc.Acts = append(sc.Acts, isoAct{Kind: "emit", Stream: st, ID: t.Choose("e-id", 3)})
			}
		case k == 5:
			if up {
				sc.Acts = append(sc.Acts, isoAct{Kind: "flush", Stream: st})
			} else {
				sc.Acts = append(sc.Acts, isoAct{Kind: "read", Stream: st})
			}
		case k == 6:
			if !up {
				sc.Acts = append(sc.Acts, isoAct{Kind: "read", Stream: st})
			} else {
				sc.Acts = append(sc.Acts, isoAct{Kind: "pump", Stream: -1})
			}
		case k == 7 || k == 8:
			sc.Acts = append(sc.Acts, isoAct{Kind: "pump", Stream: -1})
		case k == 9:
			sc.Acts = append(sc.Acts, isoAct{Kind: "advance", Stream: -1, D: Pick(t, "adv", 100*time.Millisecond, 10*time.Millisecond, time.Second, 3*time.Second)})
		case k == 10 && cuts > 0 && i > 3:
			cuts--
			if t.Bool("refuse", 1, 3) {
				sc.Acts = append(sc.Acts, isoAct{Kind: "refuse", Stream: t.Choose("refuse-which", len(sc.Streams))})
			}
			sc.Acts = append(sc.Acts, isoAct{Kind: "cut", Stream: -1, KeepC: t.Choose("keep-c", 2), KeepB: t.Choose("keep-b", 2)})
			sc.HasCut = true
		case k == 11 && closes > 0 && i > n/2:
			closes--
			sc.Acts = append(sc.Acts, isoAct{Kind: "close-stream", Stream: st})
		default:
			sc.Acts = append(sc.Acts, isoAct{Kind: "advance", Stream: -1, D: 50 * time.Millisecond})
		}
	}
	return sc
}

// execIsoScript runs the script; with only >= 0 every action that names another stream is
// dropped (those streams are not even opened). It returns what each stream showed.
func execIsoScript(s *Sim, sc *isoScript, only int) map[int]*isoObs {
	bc := BrokerCfg{AutoReq: true, AutoAck: true, AutoPong: true, AutoCallAck: true, AutoAckComplete: true, AliasInAck: true, ReuseAliases: sc.Reuse}
	y := newSys(s, bc)
	s.Net.Unrel = sc.Unrel
	y.Enc, y.PingInterval, y.PingTimeout = sc.Enc, sc.PingIv, sc.PingTo
	s.yieldDensity = 0
	in := func(i int) bool { return only < 0 || i == only || i < 0 }
	s.NewTasks(1 + len(sc.Streams))
	s.Start(0, y.connectOp())
	s.Wait()
	y.Pump()
	if op := s.ops[0]; !op.harvested || op.Err != nil {
		s.HarnessError("connect did not succeed: %v", op.Err)
		return nil
	}
	ups := map[int]*upH{}
	downs := map[int]*downH{}
	for i, st := range sc.Streams {
		if !in(i) || st.Late {
			continue
		}
		var op *Op
		if st.Up {
			sp := st.Spec
			sp.Session = fmt.Sprintf("iso-%d", i)
			op = y.openUpOp(sp)
			ups[i] = op.Meta.(*upH)
			ups[i].Idx = i // payload tag = script stream index, identical in both runs
		} else {
			op = y.openDownOp(downSpec{QoS: st.QoS, Sources: []string{"node-1", "node-2", "node-3"}, AckFlush: 100 * time.Millisecond})
			downs[i] = op.Meta.(*downH)
			downs[i].Idx = i
		}
		s.Start(0, op)
		s.Wait()
		y.Pump()
		if !op.harvested || op.Err != nil {
			s.HarnessError("open stream %d: %v", i, op.Err)
			return nil
		}
	}
	emitN := map[int]int{}
	closedByApp := map[int]bool{}
	for _, a := range sc.Acts {
		if !in(a.Stream) {
			continue
		}
		ti := 1 + a.Stream
		switch a.Kind {
		case "slow-close":
			// the slow-broker window (replies withheld for 3 s, then sent in order) is an event of the
			// environment and happens in every projection; only the target's own calls are projected away
			if len(y.aliveLinks()) == 0 {
				break
			}
			s.Broker.Cfg.AutoReq, s.Broker.Cfg.AutoAck = false, false
			tti := 1 + a.Target
			if h := ups[a.Target]; in(a.Target) && h != nil && !closedByApp[a.Target] && s.Idle(tti) {
				// (everything the target does runs on the target's own task: whether it happens must not
				// depend on what other streams keep the control task busy with)
				closedByApp[a.Target] = true
				s.Stat("env.close-abandoned-while-broker-slow")
				s.Start(tti, y.writeOp(h, tti, dataID(a.ID), []int{40}))
				s.Wait()
				s.Harvest()
				y.flushLinks()
				if s.Idle(tti) {
					cl := y.closeUpOp(h)
					cl.CtxKind, cl.Timeout = "deadline", time.Second
					s.Start(tti, cl)
				}
			}
			for k := 0; k < 30; k++ {
				y.Advance(100 * time.Millisecond)
			}
			// the slow broker now answers, in order: the late ack, then the close response
			for len(s.Broker.Pend) > 0 {
				s.Broker.Release(s.Broker.Pend[0], nil)
			}
			y.flushLinks()
			s.Broker.Cfg.AutoReq, s.Broker.Cfg.AutoAck = true, true
		case "close-during-slow-acks":
			// the slow-ack window belongs to the environment (every projection has it); the write and the
			// Close belong to the target stream
			if len(y.aliveLinks()) == 0 {
				break
			}
			s.Broker.Cfg.AutoAck = false
			tti := 1 + a.Target
			if h := ups[a.Target]; in(a.Target) && h != nil && !closedByApp[a.Target] && s.Idle(tti) {
				closedByApp[a.Target] = true
				s.Stat("env.close-while-acks-are-slow")
				s.Start(tti, y.writeOp(h, tti, dataID(a.ID), []int{40}))
				s.Wait()
				s.Harvest()
				y.flushLinks()
				if s.Idle(tti) {
					cl := y.closeUpOp(h)
					cl.CtxKind, cl.Timeout = "deadline", 30*time.Second
					s.Start(tti, cl)
				}
			}
			for k := 0; k < 30; k++ {
				y.Advance(100 * time.Millisecond)
			}
			for len(s.Broker.Pend) > 0 {
				s.Broker.Release(s.Broker.Pend[0], nil)
			}
			y.flushLinks()
			s.Broker.Cfg.AutoAck = true
			for k := 0; k < 5; k++ {
				y.Advance(100 * time.Millisecond)
			}
		case "unanswered-open":
			// the slow-broker second is an event of the environment (kept in every projection); only
			// the open call itself belongs to the target stream
			if len(y.aliveLinks()) == 0 {
				break
			}
			s.Broker.Cfg.AutoReq = false
			tti := 1 + a.Target
			if in(a.Target) && s.Idle(tti) {
				sp := sc.Streams[a.Target].Spec
				sp.Session = fmt.Sprintf("iso-%d", a.Target)
				op := y.openUpOp(sp)
				op.CtxKind, op.Timeout = "deadline", 300*time.Millisecond
				s.Start(tti, op)
				s.Stat("env.open-never-answered")
			}
			for k := 0; k < 10; k++ {
				y.Advance(100 * time.Millisecond)
			}
			for _, p := range append([]*pend(nil), s.Broker.Pend...) {
				if p.Kind == "resp" && strings.HasPrefix(p.Desc, "upstream-open") {
					if r, ok := p.Msg.(*message.UpstreamOpenResponse); ok && r != nil && in(a.Target) {
						if u := s.Broker.upByID(r.AssignedStreamID); u != nil && u.Open != nil && u.Open.SessionID == fmt.Sprintf("iso-%d", a.Target) {
							s.Broker.Drop(p)
							continue
						}
					}
				}
			}
			for len(s.Broker.Pend) > 0 {
				s.Broker.Release(s.Broker.Pend[0], nil)
			}
			y.flushLinks()
			s.Broker.Cfg.AutoReq = true
		case "open-late":
			if ups[a.Stream] != nil || !s.Idle(0) || len(y.aliveLinks()) == 0 {
				break
			}
			sp := sc.Streams[a.Stream].Spec
			sp.Session = fmt.Sprintf("iso-%d", a.Stream)
			op := y.openUpOp(sp)
			h := op.Meta.(*upH)
			h.Idx = a.Stream
			s.Start(0, op)
			s.Wait()
			y.Pump()
			if op.harvested && op.Err == nil {
				ups[a.Stream] = h
			}
		case "write":
			if h := ups[a.Stream]; h != nil && s.Idle(ti) && !closedByApp[a.Stream] {
				s.Start(ti, y.writeOp(h, ti, dataID(a.ID), a.Sizes))
			}
		case "flush":
			if h := ups[a.Stream]; h != nil && s.Idle(ti) && !closedByApp[a.Stream] {
				op := y.flushOp(h)
				op.CtxKind, op.Timeout = "deadline", 5*time.Second
				s.Start(ti, op)
			}
		case "emit":
			h := downs[a.Stream]
			if h.B != nil && h.B.link != nil && h.B.link.Alive() && !closedByApp[a.Stream] {
				emitN[a.Stream]++
				n := emitN[a.Stream]
				id := dataID(a.ID)
				r := s.Broker.Remote(a.ID % 2)
				// the remote's sequence numbers are per (downstream) here: keep a private remote per stream
				rr := &remoteUp{Info: message.UpstreamInfo{SessionID: fmt.Sprintf("sess-for-%d-%d", a.Stream, a.ID%2), SourceNodeID: r.Info.SourceNodeID, StreamID: mkUUID(0xE1, a.Stream*10+a.ID%2)}, Seq: uint32(n - 1)}
				g := sentGroup{ID: id, Points: []pt{{ID: id, Elapsed: time.Duration(n) * time.Microsecond, Payload: fmt.Sprintf("d%d|%s|%d", a.Stream, id.Name, n)}}}
				s.Broker.EmitChunk(h.B, rr, []sentGroup{g}, true, false)
			}
		case "flood":
			h := downs[a.Stream]
			if h == nil || h.B == nil || h.B.link == nil || !h.B.link.Alive() || closedByApp[a.Stream] {
				break
			}
			s.Stat("env.downstream-flooded-while-nobody-reads")
			for k := 0; k < 2600; k++ {
				emitN[a.Stream]++
				n := emitN[a.Stream]
				id := dataID(0)
				rr := &remoteUp{Info: message.UpstreamInfo{SessionID: fmt.Sprintf("sess-for-%d-%d", a.Stream, 0), SourceNodeID: s.Broker.Remote(0).Info.SourceNodeID, StreamID: mkUUID(0xE1, a.Stream*10)}, Seq: uint32(n - 1)}
				g := sentGroup{ID: id, Points: []pt{{ID: id, Elapsed: time.Duration(n) * time.Microsecond, Payload: fmt.Sprintf("d%d|%s|%d", a.Stream, id.Name, n)}}}
				s.Broker.EmitChunk(h.B, rr, []sentGroup{g}, true, false)
			}
			// (delivered by the next pump/advance like every other emission: delivering here would also
			// deliver the neighbours' frames in flight and change what a later cut loses)
		case "read":
			if h := downs[a.Stream]; s.Idle(ti) && !closedByApp[a.Stream] {
				op := y.readOp(h)
				op.CtxKind, op.Timeout = "deadline", 200*time.Millisecond
				s.Start(ti, op)
			}
		case "advance":
			y.Advance(a.D)
		case "pump":
			y.Pump()
		case "stall-datagrams":
			for _, l := range y.aliveLinks() {
				l.StallUnreliable()
			}
			s.Stat("env.datagram-side-stalled")
		case "resume-datagrams":
			for _, l := range y.allLinks() {
				l.ResumeUnreliable()
			}
		case "refuse":
			if h := ups[a.Stream]; h != nil && h.B != nil {
				h.B.RefuseResume = message.ResultCodeStreamNotFound
			} else if h := downs[a.Stream]; h != nil && h.B != nil {
				h.B.RefuseResume = message.ResultCodeStreamNotFound
			}
		case "cut":
			for _, l := range y.aliveLinks() {
				// all-or-nothing, so that the projection onto one stream loses the same frames of that stream
				if a.KeepC > 0 {
					l.IngestAll()
				}
				if a.KeepB > 0 {
					l.DeliverAll()
				}
				s.Wait()
				l.Kill(errClosed, errClosed)
				s.Stat("fault.cut")
			}
			s.Nontrivial()
		case "close-stream":
			if s.Idle(0) && !closedByApp[a.Stream] && (ups[a.Stream] != nil || downs[a.Stream] != nil) {
				closedByApp[a.Stream] = true
				var op *Op
				if h := ups[a.Stream]; h != nil {
					op = y.closeUpOp(h)
				} else {
					op = y.closeDownOp(downs[a.Stream])
				}
				op.CtxKind, op.Timeout = "deadline", 10*time.Second
				s.Start(0, op)
			}
		}
		s.Wait()
		s.Harvest()
		s.steps++
	}
	// settle
	for i := 0; i < 60; i++ {
		y.Pump()
		if !s.AnyBusy() && len(y.aliveLinks()) > 0 && i > 25 {
			break
		}
		y.Advance(time.Second)
	}
	for _, tk := range s.tasks {
		if tk.busy != nil {
			s.CancelOp(tk.busy)
		}
	}
	s.Wait()
	s.Harvest()
	y.Pump()
	obs := map[int]*isoObs{}
	// probes + observations
	for i, h := range ups {
		o := &isoObs{Final: "closed"}
		obs[i] = o
		ti := 1 + i
		if !closedByApp[i] && s.Idle(ti) {
			w := y.writeOp(h, ti, dataID(0), []int{30})
			w.CtxKind, w.Timeout = "deadline", 10*time.Second
			s.Start(ti, w)
			y.PumpUntil(func() bool { return w.harvested }, time.Second, 15*time.Second)
			if w.harvested && w.Err == nil {
				f := y.flushOp(h)
				f.CtxKind, f.Timeout = "deadline", 10*time.Second
				s.Start(ti, f)
				y.PumpUntil(func() bool { return f.harvested }, time.Second, 15*time.Second)
				for k := 0; k < 8; k++ {
					y.Advance(time.Second)
					y.Pump()
				}
				o.Final = "working"
			}
		}
		have := map[string]bool{}
		tag := fmt.Sprintf("u%d|", i)
		if h.B != nil {
			for _, a := range h.B.Arrivals {
				for _, p := range a.Points {
					have[ptKey(p)] = true
					if !strings.HasPrefix(p.Payload, tag) {
						o.Foreign = append(o.Foreign, fmt.Sprintf("ledger of stream %d holds %q", i, trunc(p.Payload, 30)))
					}
				}
			}
		}
		for _, r := range h.Before {
			for _, p := range r.Points {
				if !strings.HasPrefix(p.Payload, tag) {
					o.Foreign = append(o.Foreign, fmt.Sprintf("send hook of stream %d saw %q", i, trunc(p.Payload, 30)))
				}
			}
		}
		for k := range have {
			o.Arrived = append(o.Arrived, k)
		}
		sort.Strings(o.Arrived)
		for _, w := range h.Writes {
			o.Writes = append(o.Writes, errClass(w.Op.Err)+fmt.Sprint(w.Op.harvested))
			if w.Op.harvested && w.Op.Err == nil {
				for _, p := range w.Points {
					if !have[ptKey(p)] {
						o.Lost = append(o.Lost, ptKey(p))
					}
				}
			}
		}
		sort.Strings(o.Lost)
		if pol := h.Spec.Policy; !sc.HasCut && (pol == "interval" || pol == "default") {
			iv := h.Spec.Interval
			if pol == "default" {
				iv = 100 * time.Millisecond
			}
			sentAt := map[string]time.Duration{}
			if h.B != nil {
				for _, a := range h.B.Arrivals {
					for _, p := range a.Points {
						if _, ok := sentAt[ptKey(p)]; !ok {
							sentAt[ptKey(p)] = a.SentAt
						}
					}
				}
			}
			for _, w := range h.Writes {
				if !(w.Op.harvested && w.Op.Err == nil) {
					continue
				}
				for _, p := range w.Points {
					if at, ok := sentAt[ptKey(p)]; ok && at-w.Op.ReturnT > iv+time.Millisecond {
						o.LateFlush = append(o.LateFlush, ptKey(p))
					}
				}
			}
			sort.Strings(o.LateFlush)
		}
		o.Closed, o.Resumed = len(h.ClosedEv), len(h.ResumedEv)
		if !sc.HasCut {
			for _, r := range h.After {
				o.AckHook = append(o.AckHook, fmt.Sprintf("%d:%v", r.Seq, r.Code))
			}
			sort.Strings(o.AckHook)
		}
		// the ack hook of a stream only hears about that stream's own chunks
		sent := map[uint32]bool{}
		for _, r := range h.Before {
			sent[r.Seq] = true
		}
		for _, r := range h.After {
			if !sent[r.Seq] {
				o.Foreign = append(o.Foreign, fmt.Sprintf("ack hook of stream %d told about seq %d which it never cut", i, r.Seq))
			}
		}
	}
	for i, h := range downs {
		o := &isoObs{Final: "closed"}
		obs[i] = o
		ti := 1 + i
		tag := fmt.Sprintf("d%d|", i)
		// drain
		for k := 0; k < 1100 && !closedByApp[i] && s.Idle(ti); k++ {
			r := y.readOp(h)
			r.CtxKind, r.Timeout = "deadline", time.Second
			s.Start(ti, r)
			y.PumpUntil(func() bool { return r.harvested }, 500*time.Millisecond, 5*time.Second)
			if !r.harvested || r.Err != nil {
				if r.harvested && errClass(r.Err) == "ctx-deadline" {
					o.Final = "working"
				}
				break
			}
		}
		for _, r := range h.Reads {
			if r.harvested && r.Err == nil {
				c := r.Res.(*iscp.DownstreamChunk)
				first := ""
				for _, g := range c.DataPointGroups {
					for _, p := range g.DataPoints {
						if first == "" {
							first = string(p.Payload)
						}
						if !strings.HasPrefix(string(p.Payload), tag) {
							o.Foreign = append(o.Foreign, fmt.Sprintf("downstream %d returned %q", i, trunc(string(p.Payload), 30)))
						}
					}
				}
				o.Reads = append(o.Reads, fmt.Sprintf("%s#%d:%s", c.UpstreamInfo.SessionID, c.SequenceNumber, first))
			}
		}
		if h.B != nil {
			for _, a := range h.B.Acks {
				for _, r := range a.Results {
					o.Acked = append(o.Acked, fmt.Sprintf("%x#%d", r.StreamIDOfUpstream[12:], r.SequenceNumberInUpstream))
				}
			}
			sort.Strings(o.Acked)
		}
		o.Closed, o.Resumed = len(h.ClosedEv), len(h.ResumedEv)
	}
	// system-mode judgement: nothing foreign anywhere; a refused / closed stream does not drag others down
	for i, o := range obs {
		for _, f := range o.Foreign {
			s.Violate("C07.foreign-data", "", "%s", f)
		}
		st := sc.Streams[i]
		if only < 0 && st.Up && st.QoS == message.QoSReliable && o.Final == "working" && len(o.Lost) > 0 && !refusedIn(sc, i) {
			s.Violate("C07.reliable-stream-lost-data", "", "stream %d (reliable, never refused, still working) lost %d accepted points while other streams on the connection were opened/closed/resumed/refused: e.g. %s", i, len(o.Lost), trunc(o.Lost[0], 60))
		}
		if only < 0 && o.Final != "working" && !closedByApp[i] && !refusedIn(sc, i) && !hasCut(sc) {
			s.Violate("C07.stream-broken-by-neighbour", "", "stream %d was neither closed by the application nor refused by the broker, the link never failed, yet it no longer works at the end", i)
		}
	}
	if only < 0 {
		s.sample = map[string]any{"streams": len(sc.Streams), "actions": len(sc.Acts), "focus": sc.Focus}
	}
	s.Nontrivial()
	if s.Idle(0) {
		cop := y.closeConnOp()
		cop.CtxKind, cop.Timeout = "deadline", 20*time.Second
		s.Start(0, cop)
		y.PumpUntil(func() bool { return cop.harvested }, time.Second, 25*time.Second)
	}
	y.teardown()
	return obs
}

func refusedIn(sc *isoScript, i int) bool {
	for _, a := range sc.Acts {
		if a.Kind == "refuse" && a.Stream == i {
			return true
		}
	}
	return false
}

func hasCut(sc *isoScript) bool {
	for _, a := range sc.Acts {
		if a.Kind == "cut" {
			return true
		}
	}
	return false
}

// compareIso: the focus stream behaves the same with and without its neighbours.
func compareIso(s *Sim, sc *isoScript, full, alone *isoObs) {
	if full == nil || alone == nil {
		return
	}
	s.Stat("c07.differential-compared")
	f := sc.Focus
	diff := func(what string, a, b []string) {
		if strings.Join(a, "\n") != strings.Join(b, "\n") {
			ma, mb := setDiff(a, b)
			s.Violate("C07.neighbours-change-stream", what, "stream %d (%s): %s differs between the full run and the run without the other streams: only with neighbours %v, only alone %v", f, streamDesc(sc.Streams[f]), what, firstN(ma, 3), firstN(mb, 3))
		}
	}
	diff("points-received-by-broker", full.Arrived, alone.Arrived)
	diff("points-lost", full.Lost, alone.Lost)
	diff("write-results", full.Writes, alone.Writes)
	diff("points-flushed-later-than-the-interval", full.LateFlush, alone.LateFlush)
	diff("results-reported-to-the-ack-hook", full.AckHook, alone.AckHook)
	if full.Final == "working" && alone.Final == "working" {
		diff("read-results", full.Reads, alone.Reads)
		diff("acknowledged-results", full.Acked, alone.Acked)
	} else {
		// a closed downstream may or may not still hand out chunks it had buffered (both are legal and
		// the library chooses at random): the shorter sequence must be a prefix of the longer one
		a, b := full.Reads, alone.Reads
		if len(a) > len(b) {
			a, b = b, a
		}
		if strings.Join(a, "\n") != strings.Join(b[:len(a)], "\n") {
			diff("read-results", full.Reads, alone.Reads)
		}
	}
	if full.Final != alone.Final {
		s.Violate("C07.neighbours-change-stream", "final-state", "stream %d ends %s with neighbours and %s alone", f, full.Final, alone.Final)
	}
	if full.Closed != alone.Closed || full.Resumed != alone.Resumed {
		s.Violate("C07.neighbours-change-stream", "notifications", "stream %d: closed/resumed notifications %d/%d with neighbours, %d/%d alone", f, full.Closed, full.Resumed, alone.Closed, alone.Resumed)
	}
}

func streamDesc(st isoStream) string {
	if st.Up {
		return "upstream " + st.QoS.String() + " " + st.Spec.Policy
	}
	return "downstream " + st.QoS.String()
}

func setDiff(a, b []string) (onlyA, onlyB []string) {
	ma, mb := map[string]int{}, map[string]int{}
	for _, x := range a {
		ma[x]++
	}
	for _, x := range b {
		mb[x]++
	}
	for x, n := range ma {
		if mb[x] < n {
			onlyA = append(onlyA, trunc(x, 50))
		}
	}
	for x, n := range mb {
		if ma[x] < n {
			onlyB = append(onlyB, trunc(x, 50))
		}
	}
	sort.Strings(onlyA)
	sort.Strings(onlyB)
	return
}

// ---------------------------------------------------------------------------
// storage mode

type stIn struct {
	Op     string // store remove list clear
	Stream int
	Seq    uint32
	Val    string
}

type stOut struct {
	Err  bool
	Val  string
	List string
}

func runC07Storage(s *Sim) {
	t := s.T
	s.yieldDensity = Pick(t, "yield", 300, 100, 600, 0)
	noPayload := t.Bool("no-payload", 1, 3)
	var st iscp.VerifSentStorage
	if noPayload {
		st = iscp.VerifNewInmemSentStorageNoPayload()
	} else {
		st = iscp.VerifNewInmemSentStorage()
	}
	nTasks := Pick(t, "ntasks", 2, 3)
	nStreams := Pick(t, "nstreams", 2, 3)
	nOps := Pick(t, "nops", 8, 5, 12)
	ids := make([]uuid.UUID, nStreams)
	for i := range ids {
		ids[i] = mkUUID(0x57, i+1)
	}
	progs := make([][]stIn, nTasks)
	val := 0
	for ti := range progs {
		for k := 0; k < nOps; k++ {
			val++
			in := stIn{Stream: t.Choose("st-stream", nStreams), Seq: uint32(1 + t.Choose("st-seq", 3))}
			switch t.Choose("st-op", 8) {
			case 0, 1, 2:
				in.Op, in.Val = "store", fmt.Sprintf("v%d", val)
			case 3, 4:
				in.Op = "remove"
			case 5, 6:
				in.Op = "list"
			default:
				in.Op = "clear"
			}
			progs[ti] = append(progs[ti], in)
		}
	}
	var clock atomic.Int64
	var mu sync.Mutex
	var hist []porcupine.Operation
	done := make(chan struct{}, nTasks)
	ctx := context.Background()
	for ti := range progs {
		ti := ti
		go func() {
			defer func() { done <- struct{}{} }()
			for _, in := range progs[ti] {
				call := clock.Add(1)
				var out stOut
				switch in.Op {
				case "store":
					id := message.DataID{Name: in.Val, Type: "t"}
					err := st.Store(ctx, ids[in.Stream], in.Seq, iscp.DataPointGroups{{DataID: &id, DataPoints: iscp.DataPoints{{ElapsedTime: time.Second, Payload: []byte(in.Val)}}}})
					out.Err = err != nil
				case "remove":
					g, err := st.Remove(ctx, ids[in.Stream], in.Seq)
					out.Err = err != nil
					if err == nil && len(g) > 0 {
						out.Val = g[0].DataID.Name
					}
				case "list":
					m, err := st.List(ctx, ids[in.Stream])
					out.Err = err != nil
					var parts []string
					for q, g := range m {
						parts = append(parts, fmt.Sprintf("%d=%s", q, g[0].DataID.Name))
					}
					sort.Strings(parts)
					out.List = strings.Join(parts, ",")
				case "clear":
					out.Err = st.Clear(ctx, ids[in.Stream]) != nil
				}
				ret := clock.Add(1)
				mu.Lock()
				hist = append(hist, porcupine.Operation{ClientId: ti, Input: in, Call: call, Output: out, Return: ret})
				mu.Unlock()
			}
		}()
	}
	for i := 0; i < nTasks; i++ {
		<-done
	}
	s.Nontrivial()
	overlap := 0
	for i := range hist {
		for j := range hist {
			if i < j && hist[i].ClientId != hist[j].ClientId && hist[i].Call < hist[j].Return && hist[j].Call < hist[i].Return {
				overlap++
			}
		}
	}
	s.StatN("c07.storage-overlapping-op-pairs", overlap)
	type state = map[int]map[uint32]string // stream -> seq -> value; a stream key exists once something was stored
	model := porcupine.Model{
		Init: func() interface{} { return "" },
		Step: func(stI, inI, outI interface{}) (bool, interface{}) {
			cur := decodeSt(stI.(string))
			in, out := inI.(stIn), outI.(stOut)
			switch in.Op {
			case "store":
				if out.Err {
					return false, stI
				}
				if cur[in.Stream] == nil {
					cur[in.Stream] = map[uint32]string{}
				}
				cur[in.Stream][in.Seq] = in.Val
			case "remove":
				m, ok := cur[in.Stream]
				v, ok2 := m[in.Seq]
				if !ok || !ok2 {
					return out.Err, stI
				}
				if out.Err || out.Val != v {
					return false, stI
				}
				delete(m, in.Seq)
			case "list":
				m, ok := cur[in.Stream]
				if !ok {
					return out.Err, stI
				}
				var parts []string
				for q, v := range m {
					parts = append(parts, fmt.Sprintf("%d=%s", q, v))
				}
				sort.Strings(parts)
				if out.Err || out.List != strings.Join(parts, ",") {
					return false, stI
				}
			case "clear":
				if out.Err {
					return false, stI
				}
				delete(cur, in.Stream) // only this stream
			}
			return true, encodeSt(cur)
		},
		Equal: func(a, b interface{}) bool { return a.(string) == b.(string) },
	}
	res := porcupine.CheckOperationsTimeout(model, hist, 10*time.Second)
	switch res {
	case porcupine.Illegal:
		var lines []string
		sort.Slice(hist, func(i, j int) bool { return hist[i].Call < hist[j].Call })
		for _, h := range hist {
			lines = append(lines, fmt.Sprintf("t%d [%d,%d] %+v -> %+v", h.ClientId, h.Call, h.Return, h.Input, h.Output))
		}
		s.Violate("C07.storage-not-linearizable", fmt.Sprintf("nopayload=%v", noPayload), "history of %d operations on the sent storage (%d streams) has no linearization against a per-stream map in which Clear(s) removes only s:\n%s", len(hist), nStreams, strings.Join(lines, "\n"))
	case porcupine.Unknown:
		s.Stat("c07.porcupine-timeout")
	}
	s.sample = map[string]any{"mode": "storage", "tasks": nTasks, "streams": nStreams, "ops": len(hist), "overlapping_pairs": overlap}
}

func encodeSt(m map[int]map[uint32]string) string {
	var parts []string
	for s, mm := range m {
		var in []string
		for q, v := range mm {
			in = append(in, fmt.Sprintf("%d=%s", q, v))
		}
		sort.Strings(in)
		parts = append(parts, fmt.Sprintf("%d{%s}", s, strings.Join(in, ",")))
	}
	sort.Strings(parts)
	return strings.Join(parts, ";")
}

func decodeSt(s string) map[int]map[uint32]string {
	m := map[int]map[uint32]string{}
	if s == "" {
		return m
	}
	for _, p := range strings.Split(s, ";") {
		var id int
		i := strings.IndexByte(p, '{')
		fmt.Sscanf(p[:i], "%d", &id)
		m[id] = map[uint32]string{}
		body := p[i+1 : len(p)-1]
		if body == "" {
			continue
		}
		for _, kv := range strings.Split(body, ",") {
			var q uint32
			j := strings.IndexByte(kv, '=')
			fmt.Sscanf(kv[:j], "%d", &q)
			m[id][q] = kv[j+1:]
		}
	}
	return m
}
