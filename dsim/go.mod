module verif/dsim

go 1.26

require (
	github.com/anishathalye/porcupine v1.3.0
	github.com/aptpod/iscp-go v0.0.0
	github.com/google/uuid v1.3.0
	github.com/quic-go/quic-go v0.50.0
)

replace github.com/aptpod/iscp-go => ../repo
