package dsim

// Choice tape: the only source of randomness of a run. In generation mode every
// choice is drawn from a SplitMix64 stream seeded by the run seed and recorded;
// in replay mode choices are read from a recorded (possibly edited) tape and
// padded with zeros. By convention the value 0 is always the benign
// alternative, so that zeroing/deleting entries while shrinking removes
// operations, faults and delays.

type splitmix struct{ s uint64 }

func (r *splitmix) next() uint64 {
	r.s += 0x9e3779b97f4a7c15
	z := r.s
	z = (z ^ (z >> 30)) * 0xbf58476d1ce4e5b9
	z = (z ^ (z >> 27)) * 0x94d049bb133111eb
	return z ^ (z >> 31)
}

type Tape struct {
	Seed   uint64
	rng    splitmix
	replay bool
	pre    []uint32
	pos    int
	Rec    []uint32
	Labels []string
	trace  bool
}

func NewTape(seed uint64) *Tape {
	return &Tape{Seed: seed, rng: splitmix{s: seed*0x9e3779b97f4a7c15 + 0x1234567}}
}

func ReplayTape(seed uint64, pre []uint32) *Tape {
	t := NewTape(seed)
	t.replay = true
	t.pre = pre
	return t
}

// Choose returns a value in [0,n). n<=1 consumes nothing.
func (t *Tape) Choose(label string, n int) int {
	if n <= 1 {
		return 0
	}
	var v uint32
	if t.replay {
		if t.pos < len(t.pre) {
			v = t.pre[t.pos] % uint32(n)
		}
		t.pos++
	} else {
		v = uint32(t.rng.next()>>11) % uint32(n)
	}
	t.Rec = append(t.Rec, v)
	if t.trace {
		t.Labels = append(t.Labels, label)
	}
	return int(v)
}

// Weighted picks an index with probability proportional to w[i]; entries with
// weight 0 are never picked. Tape value 0 maps to the first enabled entry.
func (t *Tape) Weighted(label string, w []int) int {
	sum := 0
	for _, x := range w {
		sum += x
	}
	if sum == 0 {
		return -1
	}
	v := t.Choose(label, sum)
	for i, x := range w {
		if v < x {
			return i
		}
		v -= x
	}
	return len(w) - 1
}

// Bool is true with probability num/den (value 0 => false, the benign branch).
func (t *Tape) Bool(label string, num, den int) bool {
	if num <= 0 {
		return false
	}
	v := t.Choose(label, den)
	return v >= den-num
}

// Pick returns one of the given values; the first one is the benign default.
func Pick[T any](t *Tape, label string, vals ...T) T {
	return vals[t.Choose(label, len(vals))]
}
