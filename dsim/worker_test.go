package dsim

import (
	"bufio"
	"encoding/json"
	"fmt"
	"os"
	"runtime"
	"sort"
	"strconv"
	"strings"
	"sync/atomic"
	"testing"
	"time"
)

// The worker is a test binary because testing/synctest needs a *testing.T.
// It is driven by environment variables set by /verif/bin/check:
//
//	VERIF_PROP      property id (scenario key)
//	VERIF_TIER      quick | thorough
//	VERIF_SEED0     first seed, VERIF_STRIDE distance between seeds of this worker
//	VERIF_RUNS      maximum number of runs, VERIF_BUDGET_S wall-clock budget
//	VERIF_OUT       JSON-lines output file
//	VERIF_REPLAY    replay file: re-execute it instead of searching
//	VERIF_REPLAY_DIR where minimised replay files are written

type replayFile struct {
	Property   string   `json:"property"`
	Family     string   `json:"family"`
	Tier       string   `json:"tier"`
	Seed       uint64   `json:"seed"`
	Rule       string   `json:"rule"`
	Locus      string   `json:"locus"`
	Msg        string   `json:"msg"`
	Tape       []uint32 `json:"tape"`
	Labels     []string `json:"labels,omitempty"`
	Hash       string   `json:"hash"`
	Trace      []string `json:"trace,omitempty"`
	ShrunkFrom int      `json:"shrunk_from,omitempty"`
	Candidates int      `json:"shrink_candidates,omitempty"`
}

var watchdogDeadline atomic.Int64 // unix nanos (real clock); 0 = disarmed
var watchdogWhat atomic.Value

func startWatchdog(out func(map[string]any)) {
	go func() {
		for {
			time.Sleep(500 * time.Millisecond)
			d := watchdogDeadline.Load()
			if d != 0 && time.Now().UnixNano() > d {
				buf := make([]byte, 4<<20)
				n := runtime.Stack(buf, true)
				what, _ := watchdogWhat.Load().(string)
				out(map[string]any{"type": "stall", "what": what, "stacks": string(buf[:n])})
				fmt.Fprintf(os.Stderr, "WATCHDOG: %s stalled\n%s\n", what, buf[:n])
				os.Exit(3)
			}
		}
	}()
}

func envInt(k string, def int) int {
	if v := os.Getenv(k); v != "" {
		if n, err := strconv.Atoi(v); err == nil {
			return n
		}
	}
	return def
}

func hasRule(r *RunResult, rule, locus string) bool {
	for _, v := range r.Violations {
		if v.Rule == rule && (locus == "*" || v.Locus == locus) {
			return true
		}
	}
	return false
}

// shrink minimises tape while a replay still violates rule.
func shrink(t *testing.T, prop, tier string, seed uint64, tape []uint32, rule, locus string, budget time.Duration) ([]uint32, int) {
	deadline := time.Now().Add(budget)
	cands := 0
	try := func(c []uint32) bool {
		if time.Now().After(deadline) || cands > 3000 {
			return false
		}
		cands++
		watchdogDeadline.Store(time.Now().Add(60 * time.Second).UnixNano())
		r := RunOne(t, RunOpts{Prop: prop, Tier: tier, Seed: seed, Replay: c})
		watchdogDeadline.Store(0)
		return r.Harness == "" && hasRule(r, rule, locus)
	}
	cur := append([]uint32(nil), tape...)
	// 1. truncate tail (zeros implied)
	for n := len(cur) / 2; n >= 1; n /= 2 {
		for len(cur) > n {
			c := cur[:len(cur)-n]
			if try(c) {
				cur = append([]uint32(nil), c...)
			} else {
				break
			}
		}
	}
	// 2. delete blocks, 3. zero blocks
	for pass := 0; pass < 2; pass++ {
		for bs := len(cur) / 2; bs >= 1; bs /= 2 {
			for i := 0; i+bs <= len(cur); {
				var c []uint32
				if pass == 0 {
					c = append(append([]uint32(nil), cur[:i]...), cur[i+bs:]...)
				} else {
					c = append([]uint32(nil), cur...)
					allZero := true
					for j := i; j < i+bs; j++ {
						if c[j] != 0 {
							allZero = false
						}
						c[j] = 0
					}
					if allZero {
						i += bs
						continue
					}
				}
				if try(c) {
					cur = c
					if pass == 1 {
						i += bs
					}
				} else {
					i += bs
				}
			}
		}
	}
	// 4. halve values
	for i := range cur {
		for cur[i] > 0 {
			c := append([]uint32(nil), cur...)
			c[i] /= 2
			if try(c) {
				cur = c
			} else {
				break
			}
		}
	}
	// strip trailing zeros
	for len(cur) > 0 && cur[len(cur)-1] == 0 {
		cur = cur[:len(cur)-1]
	}
	return cur, cands
}

func TestWorker(t *testing.T) {
	prop := os.Getenv("VERIF_PROP")
	if prop == "" {
		t.Skip("VERIF_PROP not set")
	}
	tier := os.Getenv("VERIF_TIER")
	if tier == "" {
		tier = "quick"
	}
	outPath := os.Getenv("VERIF_OUT")
	var w *bufio.Writer
	if outPath != "" {
		f, err := os.Create(outPath)
		if err != nil {
			t.Fatal(err)
		}
		defer f.Close()
		w = bufio.NewWriter(f)
		defer w.Flush()
	} else {
		w = bufio.NewWriter(os.Stdout)
		defer w.Flush()
	}
	emit := func(m map[string]any) {
		b, _ := json.Marshal(m)
		w.Write(b)
		w.WriteByte('\n')
		w.Flush()
	}
	startWatchdog(emit)

	if rp := os.Getenv("VERIF_REPLAY"); rp != "" {
		replay(t, rp, emit)
		return
	}

	seed0 := uint64(envInt("VERIF_SEED0", 1))
	stride := uint64(envInt("VERIF_STRIDE", 1))
	maxRuns := envInt("VERIF_RUNS", 100)
	budget := time.Duration(envInt("VERIF_BUDGET_S", 30)) * time.Second
	replayDir := os.Getenv("VERIF_REPLAY_DIR")
	progress := os.Getenv("VERIF_PROGRESS")
	start := time.Now()

	agg := map[string]int{}
	hashes := map[string]bool{}
	fams := map[string]int{}
	cover := map[string]bool{}
	runs, steps, harness, leaks := 0, 0, 0, 0
	var simMs int64
	seenRule := map[string]bool{}
	type firstViol struct {
		seed uint64
		tape []uint32
		v    Violation
	}
	var firsts []firstViol
	var samples []any
	for i := 0; i < maxRuns && time.Since(start) < budget; i++ {
		seed := seed0 + uint64(i)*stride
		if progress != "" {
			os.WriteFile(progress, []byte(strconv.FormatUint(seed, 10)), 0o644)
		}
		watchdogWhat.Store(fmt.Sprintf("%s seed %d", prop, seed))
		watchdogDeadline.Store(time.Now().Add(60 * time.Second).UnixNano())
		r := RunOne(t, RunOpts{Prop: prop, Tier: tier, Seed: seed})
		watchdogDeadline.Store(0)
		runs++
		steps += r.Steps
		simMs += r.SimTimeMs
		fams[r.Family]++
		for k, v := range r.Stats {
			agg[k] += v
		}
		if os.Getenv("VERIF_EMIT_RUNS") != "" {
			var rules []string
			for _, v := range r.Violations {
				rules = append(rules, v.Rule)
			}
			sort.Strings(rules)
			emit(map[string]any{"type": "run", "seed": seed, "hash": r.Hash, "verdict": strings.Join(rules, ","), "steps": r.Steps})
		}
		if r.Harness != "" {
			harness++
			emit(map[string]any{"type": "harness", "seed": seed, "error": r.Harness})
			continue
		}
		if r.Leak != "" {
			leaks++
		}
		if r.Nontrivial {
			hashes[r.Hash] = true
		}
		for _, c := range r.Cover {
			cover[c] = true
		}
		if len(samples) < 2 && r.Sample != nil {
			samples = append(samples, map[string]any{"seed": seed, "steps": r.Steps, "case": r.Sample})
		}
		for _, v := range r.Violations {
			key := v.Rule + "|" + v.Locus
			emit(map[string]any{"type": "violation", "seed": seed, "rule": v.Rule, "locus": v.Locus, "msg": v.Msg, "new": !seenRule[key]})
			if seenRule[key] {
				continue
			}
			seenRule[key] = true
			firsts = append(firsts, firstViol{seed: seed, tape: r.Tape, v: v})
		}
	}
	// minimise once per (rule, locus), after the search budget, and write the replay files
	shrinkS := time.Duration(envInt("VERIF_SHRINK_S", 15)) * time.Second
	for i, fv := range firsts {
		if replayDir == "" || i >= 6 {
			break
		}
		v, seed := fv.v, fv.seed
		tape, cands := shrink(t, prop, tier, seed, fv.tape, v.Rule, v.Locus, shrinkS)
		tr := RunOne(t, RunOpts{Prop: prop, Tier: tier, Seed: seed, Replay: tape, Trace: true})
		rf := replayFile{Property: prop, Family: tr.Family, Tier: tier, Seed: seed, Rule: v.Rule, Locus: v.Locus, Msg: v.Msg,
			Tape: tape, Labels: tr.Labels, Hash: tr.Hash, Trace: tr.Trace, ShrunkFrom: len(fv.tape), Candidates: cands}
		for _, vv := range tr.Violations {
			if vv.Rule == v.Rule && vv.Locus == v.Locus {
				rf.Msg = vv.Msg
			}
		}
		name := fmt.Sprintf("%s/%s-%s-%d.json", replayDir, prop, sanitize(v.Rule+"-"+v.Locus), seed)
		b, _ := json.MarshalIndent(rf, "", " ")
		os.WriteFile(name, b, 0o644)
		emit(map[string]any{"type": "replay", "rule": v.Rule, "locus": v.Locus, "seed": seed, "path": name, "tape_len": len(tape), "from": len(fv.tape), "candidates": cands, "still_fails": hasRule(tr, v.Rule, v.Locus)})
	}
	hs := make([]string, 0, len(hashes))
	for h := range hashes {
		hs = append(hs, h)
	}
	sort.Strings(hs)
	emit(map[string]any{"type": "summary", "prop": prop, "tier": tier, "runs": runs, "steps": steps, "sim_ms": simMs,
		"stats": agg, "hashes": hs, "families": fams, "harness_errors": harness, "leaks": leaks,
		"wall_s": time.Since(start).Seconds(), "samples": samples, "cover": sortedKeys(cover), "seed0": seed0, "stride": stride})
}

func sanitize(s string) string {
	var b strings.Builder
	for _, r := range s {
		switch {
		case r >= 'a' && r <= 'z', r >= 'A' && r <= 'Z', r >= '0' && r <= '9', r == '.', r == '-', r == '_':
			b.WriteRune(r)
		default:
			b.WriteByte('_')
		}
	}
	out := b.String()
	if len(out) > 80 {
		out = out[:80]
	}
	return out
}

func replay(t *testing.T, path string, emit func(map[string]any)) {
	b, err := os.ReadFile(path)
	if err != nil {
		t.Fatal(err)
	}
	var rf replayFile
	if err := json.Unmarshal(b, &rf); err != nil {
		t.Fatal(err)
	}
	n := envInt("VERIF_REPLAY_N", 5)
	hits := 0
	var last *RunResult
	for i := 0; i < n; i++ {
		watchdogWhat.Store("replay " + path)
		watchdogDeadline.Store(time.Now().Add(60 * time.Second).UnixNano())
		r := RunOne(t, RunOpts{Prop: rf.Property, Tier: rf.Tier, Seed: rf.Seed, Replay: rf.Tape, Trace: true})
		watchdogDeadline.Store(0)
		if i == 0 {
			last = r
		}
		if hasRule(r, rf.Rule, rf.Locus) {
			hits++
			if hits == 1 {
				last = r // show the trace of an execution that reproduces
			}
		}
	}
	emit(map[string]any{"type": "replayed", "path": path, "rule": rf.Rule, "locus": rf.Locus, "reproduced": hits, "of": n,
		"violations": last.Violations, "trace": last.Trace, "harness": last.Harness, "hash": last.Hash, "hash_recorded": rf.Hash})
}
