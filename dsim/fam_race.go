package dsim

// C09: data races. The most concurrent scenario families are executed with the
// race detector compiled in, under burst stepping (no quiescence point between
// consecutive scheduler actions) and seeded yields. The oracle is the detector's
// report, collected by the orchestrator from the worker's stderr; violations of
// other properties' oracles raised by the wrapped scenarios are not C09's business
// and are dropped here.

func init() { scenarios["C09"] = runC09 }

var c09Families = []string{"C05", "C02", "C07", "C16", "C10", "C06", "C01", "C03", "C04", "C08", "C18", "C19"}

func runC09(s *Sim) {
	if s.Phase == 0 {
		var avail []string
		for _, f := range c09Families {
			if _, ok := scenarios[f]; ok {
				avail = append(avail, f)
			}
		}
		s.Carry = avail[s.T.Choose("c09-family", len(avail))]
		s.BurstMax = Pick(s.T, "burst-max", 3, 1, 6, 0)
	}
	fam := s.Carry.(string)
	if c, ok := s.Carry.(*c09Carry); ok {
		fam = c.fam
	}
	inner := scenarios[fam]
	s.RaceMode = true
	prop := s.Prop
	s.Prop = fam // the wrapped scenario names its rules after its own property
	carry := s.Carry
	if c, ok := carry.(*c09Carry); ok {
		s.Carry = c.inner
	} else {
		s.Carry = nil
	}
	inner(s)
	s.Prop = prop
	s.Carry = &c09Carry{fam: fam, inner: s.Carry}
	s.Family = "race/" + s.Family
	// oracle failures of the wrapped family (possible under burst stepping, which breaks the
	// quiescence assumptions of their oracles) are not judged here
	s.mu.Lock()
	s.viol = nil
	s.harnessErr = ""
	s.mu.Unlock()
	s.Nontrivial()
}

type c09Carry struct {
	fam   string
	inner any
}
