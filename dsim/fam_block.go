package dsim

import (
	"fmt"
	"time"

	"github.com/aptpod/iscp-go/iscp"
	"github.com/aptpod/iscp-go/message"
)

// C08: no API call blocks for ever. A "target" call meets a misbehaving broker
// (answer / delay / drop / misaddress / disconnect / silent peer at a chosen
// message position); a "victim" call with a deadline is issued while the target
// is in flight; afterwards the broker behaves again and a probe sequence must
// complete (this is what exposes leaked locks and dead dispatchers).

func init() { scenarios["C08"] = runC08 }

var c08Kinds = []string{"OpenUpstream", "OpenDownstream", "Write", "Flush", "ReadDataPoints", "ReadMetadata", "SendMetadata", "SendCall", "SendCallAndWait", "Upstream.Close", "Downstream.Close", "Conn.Close", "ReceiveCall"}

type c08 struct {
	y  *Sys
	up *upH
	dn *downH
	n  int
}

func (c *c08) mkOp(kind string) *Op {
	y := c.y
	c.n++
	switch kind {
	case "OpenUpstream":
		return y.openUpOp(upSpec{QoS: message.QoSReliable, Policy: "immediate", Session: fmt.Sprintf("c08-%d", c.n)})
	case "OpenDownstream":
		return y.openDownOp(downSpec{QoS: message.QoSReliable, Sources: []string{"node-1", fmt.Sprintf("src-%d", c.n)}})
	case "Write":
		return y.writeOp(c.up, 0, dataID(c.n%3), []int{16, 100})
	case "Flush":
		return y.flushOp(c.up)
	case "ReadDataPoints":
		return y.readOp(c.dn)
	case "ReadMetadata":
		return y.readMetaOp(c.dn)
	case "SendMetadata":
		return y.sendMetaOp(fmt.Sprintf("c08-bt-%d", c.n))
	case "SendCall":
		return y.sendCallOp("call", fmt.Sprintf("c08-call-%d", c.n), "p", "")
	case "SendCallAndWait":
		return y.sendCallOp("call-wait", fmt.Sprintf("c08-callw-%d", c.n), "p", "")
	case "Upstream.Close":
		return y.closeUpOp(c.up)
	case "Downstream.Close":
		return y.closeDownOp(c.dn)
	case "Conn.Close":
		return y.closeConnOp()
	case "ReceiveCall":
		return y.recvCallOp(false)
	}
	panic(kind)
}

func runC08(s *Sim) {
	t := s.T
	s.Family = "blocking-catalogue"
	bc := BrokerCfg{AutoReq: false, AutoAck: false, AutoPong: true, AutoCallAck: false, AutoAckComplete: true,
		AliasInAck: t.Bool("alias-in-ack", 1, 2)}
	y := newSys(s, bc)
	// the application's reconnected handler calls back into the connection (with a deadline)
	y.ReenterOnReconnected = t.Bool("api-call-from-reconnected-handler", 1, 3)
	if t.Bool("json", 1, 4) {
		y.Enc = iscp.EncodingNameJSON
	}
	iv := Pick(t, "ping-iv", 5*time.Second, 2*time.Second, 10*time.Second)
	to := Pick(t, "ping-to", 2*time.Second, time.Second)
	y.PingInterval, y.PingTimeout = iv, to
	s.yieldDensity = Pick(t, "yield", 0, 0, 50)
	c := &c08{y: y}
	s.NewTasks(3) // 0 target, 1 victim, 2 control/probes
	s.Start(2, y.connectOp())
	s.Wait()
	y.Pump()
	if y.ConnOp = s.ops[0]; !y.ConnOp.harvested || y.ConnOp.Err != nil {
		s.HarnessError("connect did not succeed: %v", y.ConnOp.Err)
		return
	}
	closeTO := Pick(t, "close-to", 3*time.Second, time.Second, 10*time.Second)
	ackTO := Pick(t, "ack-to", time.Duration(0), 0, 2*time.Second)
	up := s.Start(2, y.openUpOp(upSpec{QoS: Pick(t, "qos", message.QoSReliable, message.QoSUnreliable), Policy: Pick(t, "policy", "immediate", "none", "size", "interval"),
		Size: 50, Interval: 200 * time.Millisecond, CloseTimeout: closeTO, AckTimeout: ackTO}))
	s.Wait()
	y.Pump()
	dn := s.Start(2, y.openDownOp(downSpec{QoS: message.QoSReliable, Sources: []string{"node-1", "node-2"}, AckFlush: 100 * time.Millisecond}))
	s.Wait()
	y.Pump()
	if !up.harvested || up.Err != nil || !dn.harvested || dn.Err != nil {
		s.HarnessError("setup did not succeed: %v %v", up.Err, dn.Err)
		return
	}
	c.up, c.dn = y.Ups[0], y.Downs[0]
	// pre-state: data written, acks possibly withheld; chunks / metadata possibly waiting to be read
	if t.Bool("pre-write", 2, 3) {
		n := Pick(t, "pre-n", 1, 3, 6)
		for i := 0; i < n; i++ {
			sizes := []int{16, 40}
			if t.Bool("pre-write-empty", 1, 5) {
				sizes = nil // a write without data points is legal and leaves nothing behind
			}
			op := s.Start(2, y.writeOp(c.up, 2, dataID(i%2), sizes))
			s.Wait()
			y.flushLinks()
			if !op.harvested {
				s.CancelOp(op)
				s.Wait()
				s.Harvest()
			}
		}
		if t.Bool("pre-ack", 1, 2) {
			y.Pump()
		}
	}
	if t.Bool("pre-chunks", 1, 2) {
		for i := 0; i < Pick(t, "pre-c", 1, 3); i++ {
			fc := &faultCtx{y: y}
			fc.emit(c.dn, false)
		}
		y.flushLinks()
	}

	kind := c08Kinds[t.Choose("target", len(c08Kinds))]
	behaviour := Pick(t, "behaviour", "drop", "answer", "delay", "misaddress", "disconnect", "silent-peer", "misaddress-spontaneous", "outage", "silent-peer", "refuse", "slow-resume")
	position := t.Choose("position", 3) // which reply caused by the target is affected
	ctxKind := Pick(t, "ctx", "bg", "deadline", "cancel", "cancel-yield")
	target := c.mkOp(kind)
	armAtReply := 0
	if ctxKind == "cancel-yield" {
		// the caller gives up at an arbitrary instant inside the call (k-th yield point passed by any
		// library goroutine), not at a quiescence point; the scheduler cancels at cancelAt otherwise.
		// The countdown starts with the call, or when the first reply caused by the call is about to
		// be delivered (so that the caller leaves while its reply is being dispatched)
		ctxKind = "cancel"
		if t.Bool("cancel-yield-at-reply", 1, 2) {
			armAtReply = 1 + t.Choose("cancel-yield-k2", 25)
		} else {
			target.CancelAtYield = 1 + t.Choose("cancel-yield-k", 80)
		}
	}
	target.CtxKind = ctxKind
	if ctxKind == "deadline" {
		target.Timeout = Pick(t, "deadline", 2*time.Second, 500*time.Millisecond, 7*time.Second)
	}
	cancelAt := Pick(t, "cancel-at", 1*time.Second, 300*time.Millisecond, 4*time.Second)
	victimKind := c08Kinds[t.Choose("victim", len(c08Kinds))]
	victimDelay := Pick(t, "victim-delay", 200*time.Millisecond, time.Duration(0), time.Second)
	if behaviour == "outage" && t.Bool("victim-late-in-the-outage", 1, 3) {
		// several seconds into the outage the pauses between redial attempts have grown to seconds
		victimDelay = Pick(t, "victim-delay-late", 6*time.Second, 4*time.Second, 9*time.Second)
	}
	victimTO := Pick(t, "victim-to", 2*time.Second, time.Second, 4*time.Second)
	withVictim := t.Bool("with-victim", 3, 4)
	s.Family = "blocking-" + behaviour
	l := y.aliveLinks()[0]

	if behaviour == "silent-peer" {
		l.Blackhole()
		s.Stat("fault.silent-peer")
	}
	// outage: the link dies and every redial fails until the heal phase, so the calls overlap a
	// reconnect loop that cannot succeed (only their contexts bound them)
	startOutage := func(ll *Link) {
		s.mu.Lock()
		s.Net.DialFail = 1 << 30
		s.mu.Unlock()
		if ll.Alive() {
			ll.Kill(errClosed, errClosed)
		}
		s.Stat("fault.outage-redials-failing")
	}
	outageStarted := false
	if behaviour == "outage" && t.Bool("outage-before-target", 1, 2) {
		startOutage(l)
		outageStarted = true
		s.Wait()
		s.Advance(Pick(t, "outage-lead", time.Duration(0), 50*time.Millisecond, 2*time.Second))
	}
	// a writer that is already blocked in WriteDataPoints (no deadline of its own) when the target starts:
	// during an outage nothing takes its points; whatever bounds the target still bounds it
	if outageStarted && s.Idle(2) && t.Bool("writer-blocked-before-target", 1, 2) {
		s.Start(2, y.writeOp(c.up, 2, dataID(0), []int{16}))
		s.Wait()
		s.Stat("env.writer-blocked-in-outage-before-target")
	}
	pendBefore := map[*pend]bool{}
	for _, p := range s.Broker.Pend {
		pendBefore[p] = true
	}
	t0 := s.Now()
	s.Start(0, target)
	s.Wait()
	s.Logf("target=%s ctx=%s behaviour=%s position=%d victim=%s/%v closeTO=%v ackTO=%v", kind, target.ctxString(), behaviour, position, victimKind, victimTO, closeTO, ackTO)

	// governing bound of the target
	var bound time.Duration = -1 // -1: exempt
	detect := iv + to + 2*time.Second
	switch ctxKind {
	case "deadline":
		bound = target.Timeout
	case "cancel":
		bound = cancelAt
	default:
		switch {
		case kind == "Upstream.Close":
			// judged separately below: the close timeout bounds the wait for acks (the close request
			// must be on the link by then); the wait for the close response is governed by the
			// context only (the repository's own tests pin that reading)
		case behaviour == "silent-peer" || behaviour == "disconnect":
			if kind != "ReadDataPoints" && kind != "ReadMetadata" && kind != "ReceiveCall" && kind != "SendCall" && kind != "SendCallAndWait" {
				bound = detect
			}
		case behaviour == "answer" || behaviour == "refuse":
			if kind != "ReadDataPoints" && kind != "ReadMetadata" && kind != "ReceiveCall" && kind != "SendCallAndWait" {
				bound = 5 * time.Second
				if kind == "Upstream.Close" || kind == "Downstream.Close" {
					bound = closeTO + 5*time.Second
				}
			}
		}
	}
	if bound < 0 {
		s.Stat("c08.target-exempt")
	}
	affected := 0
	affectedDesc := ""
	var delayed []*pend
	var victim *Op
	horizon := 25 * time.Second
	if bound > 0 && bound+5*time.Second > horizon {
		horizon = bound + 5*time.Second
	}
	spontaneousDone := false
	for s.Now()-t0 < horizon {
		if armAtReply > 0 && !target.harvested {
			for _, ll := range y.aliveLinks() {
				if ll.PendingB2C() > 0 {
					s.ArmYieldCancel(target, armAtReply)
					armAtReply = 0
					s.Stat("env.cancel-countdown-started-at-reply-delivery")
					break
				}
			}
		}
		y.flushLinks()
		// replies caused since the target started
		for _, p := range append([]*pend(nil), s.Broker.Pend...) {
			if pendBefore[p] || containsPend(delayed, p) {
				continue
			}
			if behaviour == "slow-resume" && outageStarted && (p.Desc == "upstream-resume" || p.Desc == "downstream-resume") {
				// the broker is slow to answer resume requests on the new connection
				delayed = append(delayed, p)
				s.Stat("fault.resume-answer-delayed")
				continue
			}
			idx := affected
			affected++
			if idx == position && behaviour != "answer" && behaviour != "silent-peer" {
				affectedDesc = p.Desc
			}
			if idx != position || behaviour == "answer" || behaviour == "silent-peer" {
				s.Broker.Release(p, nil)
				continue
			}
			switch behaviour {
			case "drop":
				s.Broker.Drop(p)
				s.Stat("fault.reply-dropped")
				s.Logf("fault: drop %s", p.Desc)
			case "delay":
				delayed = append(delayed, p)
				s.Stat("fault.reply-delayed")
				s.Logf("fault: delay %s", p.Desc)
			case "misaddress":
				s.Broker.Drop(p)
				misaddress(s, p)
				s.Stat("fault.reply-misaddressed")
				s.Logf("fault: misaddress %s", p.Desc)
			case "disconnect":
				s.Broker.Drop(p)
				if p.Link.Alive() {
					p.Link.Kill(errClosed, errClosed)
				}
				s.Stat("fault.disconnect")
				s.Logf("fault: disconnect at %s", p.Desc)
			case "refuse":
				if refuseReply(p) {
					s.Stat("fault.reply-with-failure-code")
					s.Logf("fault: failure code in %s", p.Desc)
				}
				s.Broker.Release(p, nil)
			case "slow-resume":
				s.Broker.Drop(p)
				if !outageStarted {
					outageStarted = true
					if p.Link.Alive() {
						p.Link.Kill(errClosed, errClosed)
					}
					s.Stat("fault.disconnect")
					s.Logf("fault: disconnect at %s, resume answers withheld", p.Desc)
				}
			case "outage":
				s.Broker.Drop(p)
				if !outageStarted {
					outageStarted = true
					startOutage(p.Link)
					s.Logf("fault: outage (redials fail) at %s", p.Desc)
				}
			default:
				s.Broker.Release(p, nil)
			}
		}
		if behaviour == "misaddress-spontaneous" && !spontaneousDone && s.Now()-t0 >= 100*time.Millisecond {
			spontaneousDone = true
			for _, ll := range y.aliveLinks() {
				spontaneousMisaddressed(s, ll, c.dn.B.Alias, t.Choose("spont-kind", 7))
			}
			s.Stat("fault.spontaneous-misaddressed")
		}
		if ctxKind == "cancel" && target.CancelT < 0 && s.Now()-t0 >= cancelAt && !target.harvested {
			s.CancelOp(target)
		}
		if withVictim && victim == nil && s.Now()-t0 >= victimDelay && s.Idle(1) && victimKind != kind {
			if !(victimKind == "Upstream.Close" && c.up.CloseOp != nil) && !(victimKind == "Downstream.Close" && c.dn.CloseOp != nil) && !(victimKind == "Conn.Close" && y.CloseOp != nil) {
				victim = c.mkOp(victimKind)
				victim.CtxKind, victim.Timeout = "deadline", victimTO
				s.Start(1, victim)
			}
		}
		s.Wait()
		s.Harvest()
		if target.harvested && (victim == nil || victim.harvested) && s.Now()-t0 > 2*time.Second {
			break
		}
		s.Advance(100 * time.Millisecond)
	}
	// judge the target
	lateBy := func(op *Op, b time.Duration) (time.Duration, bool) {
		if b < 0 {
			return 0, false
		}
		if !op.harvested {
			return s.Now() - op.InvokeT - b, true
		}
		if d := op.ReturnT - op.InvokeT - b; d > time.Second {
			return d, true
		}
		return 0, false
	}
	if ctxKind == "cancel" && target.CancelT >= 0 {
		bound = target.CancelT - target.InvokeT
	}
	if d, late := lateBy(target, bound); late {
		rule := "C08.bound-exceeded"
		switch {
		case ctxKind != "bg":
			rule = "C08.ctx-ignored"
		case kind == "Upstream.Close":
			rule = "C08.close-timeout-ignored"
		}
		s.Violate(rule, kind+":"+behaviour, "%s (ctx=%s) under broker behaviour %q at reply #%d: governing bound %v, %s", kind, target.ctxString(), behaviour, position, bound, lateString(target, d))
	}
	if kind == "Upstream.Close" && ctxKind == "bg" && behaviour != "silent-peer" && behaviour != "disconnect" && c.up.B != nil {
		var cr *closeReq
		if n := len(c.up.B.CloseReqs); n > 0 {
			cr = c.up.B.CloseReqs[n-1]
		}
		switch {
		case cr == nil && target.harvested:
			// Close returned without a close request (the stream or connection was already closed)
		case cr == nil:
			s.Violate("C08.close-timeout-ignored", behaviour, "Upstream.Close (ctx=bg, close timeout %v) under broker behaviour %q at reply #%d: neither returned nor sent a close request after %v", closeTO, behaviour, position, s.Now()-t0)
		case cr.At-t0 > closeTO+time.Second:
			s.Violate("C08.close-timeout-ignored", behaviour, "Upstream.Close (ctx=bg, close timeout %v): close request sent only after %v", closeTO, cr.At-t0)
		case affectedDesc != "upstream-close" && !target.harvested:
			s.Violate("C08.bound-exceeded", "Upstream.Close:"+behaviour, "Upstream.Close (ctx=bg): the broker answered the close request at %v but Close is still blocked at %v", cr.At-t0, s.Now()-t0)
		}
	}
	if victim != nil {
		if d, late := lateBy(victim, victimTO); late {
			locus := "victim:" + victimKind + ":while:" + kind
			if victimKind == "Conn.Close" && behaviour == "outage" && victim.harvested && d <= 8*time.Second {
				// Close did return, late by at most one pause of the redial loop (0.1 s doubling up to 5 s, times
				// 0.5..1.5): it waited for the connection mutex that the loop holds while it sleeps
				locus = "victim:Conn.Close:late-by-one-redial-pause"
			}
			s.Violate("C08.ctx-ignored", locus, "%s with a %v deadline, issued while %s (ctx=%s, broker: %s) was in flight: %s", victimKind, victimTO, kind, target.ctxString(), behaviour, lateString(victim, d))
		}
	}
	// the broker answers every ping at once in these runs and the link stays up under these
	// behaviours: a redial means the client stopped processing what the link delivers (pongs
	// included) and gave up a live connection
	switch behaviour {
	case "answer", "delay", "drop", "misaddress", "misaddress-spontaneous", "refuse":
		s.mu.Lock()
		dials := s.Net.Dials
		s.mu.Unlock()
		if dials > 1 && ackTO == 0 && y.CloseOp == nil {
			s.Violate("C08.dispatcher-stalled", kind+":"+behaviour, "the client redialled (%d dials) although the broker answered every ping and the link never failed (target %s, broker behaviour %q at reply #%d): its dispatching had stopped", dials, kind, behaviour, position)
		}
	}
	// once Conn.Close has returned the connection never comes back: a call that was waiting for it
	// (whatever its context) must end too
	for _, pair := range [][2]*Op{{target, victim}, {victim, target}} {
		cl, other := pair[0], pair[1]
		if cl == nil || other == nil || cl.Name != "Conn.Close" || !cl.harvested || other.harvested {
			continue
		}
		if waited := s.Now() - cl.ReturnT; waited > 2*time.Second {
			s.Violate("C08.blocked-after-conn-close", other.Name+":"+behaviour, "%s (ctx=%s) is still blocked %v after Conn.Close returned (broker behaviour %q)", other.Name, other.ctxString(), waited.Round(time.Millisecond), behaviour)
		}
	}
	s.Nontrivial()

	// ---- heal: the broker behaves again ----
	s.mu.Lock()
	s.Net.DialFail = 0
	s.mu.Unlock()
	for _, p := range delayed {
		s.Broker.Release(p, nil)
	}
	s.Broker.Cfg.AutoReq, s.Broker.Cfg.AutoAck, s.Broker.Cfg.AutoCallAck = true, true, true
	for _, tk := range s.tasks {
		if tk.busy != nil {
			s.CancelOp(tk.busy)
		}
	}
	for i := 0; i < 40; i++ {
		y.Pump()
		if !s.AnyBusy() && len(y.aliveLinks()) > 0 && i > 15 {
			break
		}
		y.Advance(time.Second)
	}
	y.Pump()
	for _, tk := range s.tasks {
		if op := tk.busy; op != nil {
			s.Violate("C08.cancel-ignored", op.Name, "%s is still blocked 40 s after its context was cancelled and the broker resumed normal behaviour (target=%s, behaviour=%s)", op.Name, kind, behaviour)
		}
	}
	// ---- probe sequence: the connection's dispatching must still work ----
	if y.CloseOp == nil && !s.AnyBusy() {
		probes := []string{"OpenUpstream", "SendMetadata", "OpenDownstream"}
		if c.dn.CloseOp == nil && c.dn.D != nil {
			// two reads first: they return a chunk, an error or their deadline, and leave no lock behind
			probes = append([]string{"ReadDataPoints", "ReadDataPoints"}, probes...)
		}
		for _, pk := range probes {
			op := c.mkOp(pk)
			op.CtxKind, op.Timeout = "deadline", 20*time.Second
			if pk == "ReadDataPoints" {
				op.Timeout = time.Second
			}
			s.Start(2, op)
			y.PumpUntil(func() bool { return op.harvested }, time.Second, 25*time.Second)
			if !op.harvested {
				s.Violate("C08.dispatcher-dead", "probe:"+pk, "after target=%s behaviour=%s: probe %s with a 20 s deadline does not return although the broker answers everything (lock never released or dispatcher dead)", kind, behaviour, pk)
				break
			}
			if pk == "ReadDataPoints" {
				continue // any outcome within the deadline is fine
			}
			if op.Err != nil {
				s.Violate("C08.probe-failed", "probe:"+pk+":"+errClass(op.Err), "after target=%s behaviour=%s: probe %s fails with %q although the broker answers everything", kind, behaviour, pk, errString(op.Err))
				break
			}
			// close what the probe opened, with the same demand
			var cl *Op
			if h, ok := op.Meta.(*upH); ok && h.U != nil {
				cl = y.closeUpOp(h)
			} else if h, ok := op.Meta.(*downH); ok && h.D != nil {
				cl = y.closeDownOp(h)
			}
			if cl != nil {
				cl.CtxKind, cl.Timeout = "deadline", 20*time.Second
				s.Start(2, cl)
				y.PumpUntil(func() bool { return cl.harvested }, time.Second, 25*time.Second)
				if !cl.harvested {
					s.Violate("C08.dispatcher-dead", "probe-close:"+pk, "after target=%s behaviour=%s: closing the stream opened by the probe does not return within its 20 s deadline", kind, behaviour)
					break
				}
			}
		}
		if c.up.CloseOp == nil {
			y.snapshot(c.up) // reports <prop>.state-blocked if the stream lock was leaked
		}
	}
	s.sample = map[string]any{"target": kind, "ctx": target.ctxString(), "behaviour": behaviour, "position": position, "victim": victimKind, "bound": bound.String(), "returned": target.harvested, "err": errString(target.Err)}
	if y.CloseOp == nil && s.Idle(2) {
		cop := y.closeConnOp()
		cop.CtxKind, cop.Timeout = "deadline", 20*time.Second
		s.Start(2, cop)
		y.PumpUntil(func() bool { return cop.harvested }, time.Second, 25*time.Second)
		if !cop.harvested {
			s.Violate("C08.ctx-ignored", "final:Conn.Close", "Conn.Close with a 20 s deadline does not return after target=%s behaviour=%s", kind, behaviour)
		}
	}
	y.judgeHandlerCalls("C08.ctx-ignored")
	y.teardown()
}

// refuseReply turns a pending response into one that carries a failure code.
func refuseReply(p *pend) bool {
	const code = message.ResultCodeUnspecifiedError
	switch m := p.Msg.(type) {
	case *message.UpstreamOpenResponse:
		m.ResultCode, m.ResultString = code, "refused"
	case *message.UpstreamCloseResponse:
		m.ResultCode, m.ResultString = code, "refused"
	case *message.UpstreamResumeResponse:
		m.ResultCode, m.ResultString = code, "refused"
	case *message.DownstreamOpenResponse:
		m.ResultCode, m.ResultString = code, "refused"
	case *message.DownstreamCloseResponse:
		m.ResultCode, m.ResultString = code, "refused"
	case *message.DownstreamResumeResponse:
		m.ResultCode, m.ResultString = code, "refused"
	case *message.UpstreamMetadataAck:
		m.ResultCode, m.ResultString = code, "refused"
	case *message.UpstreamCallAck:
		m.ResultCode, m.ResultString = code, "refused"
	default:
		return false
	}
	return true
}

func lateString(op *Op, d time.Duration) string {
	if !op.harvested {
		return fmt.Sprintf("still blocked %v after the bound", d.Round(time.Millisecond))
	}
	return fmt.Sprintf("returned %v after the bound (%s)", d.Round(time.Millisecond), errString(op.Err))
}

func containsPend(ps []*pend, p *pend) bool {
	for _, q := range ps {
		if q == p {
			return true
		}
	}
	return false
}

// misaddress sends a reply of the right type to an address nobody owns.
func misaddress(s *Sim, p *pend) {
	l := p.Link
	if !l.Alive() {
		return
	}
	if p.Kind == "ack" {
		l.push(&message.UpstreamChunkAck{StreamIDAlias: 7777, Results: []*message.UpstreamChunkResult{p.Res}})
		return
	}
	switch m := p.Msg.(type) {
	case *message.UpstreamOpenResponse:
		c := *m
		c.RequestID += 1000
		l.push(&c)
	case *message.UpstreamCloseResponse:
		c := *m
		c.RequestID += 1000
		l.push(&c)
	case *message.UpstreamResumeResponse:
		c := *m
		c.RequestID += 1000
		l.push(&c)
	case *message.DownstreamOpenResponse:
		c := *m
		c.RequestID += 1000
		l.push(&c)
	case *message.DownstreamCloseResponse:
		c := *m
		c.RequestID += 1000
		l.push(&c)
	case *message.DownstreamResumeResponse:
		c := *m
		c.RequestID += 1000
		l.push(&c)
	case *message.UpstreamMetadataAck:
		c := *m
		c.RequestID += 1000
		l.push(&c)
	case *message.UpstreamCallAck:
		c := *m
		c.CallID = "nobody-" + c.CallID
		l.push(&c)
	case *message.Pong:
		c := *m
		c.RequestID += 1000
		l.push(&c)
	case *message.DownstreamChunkAckComplete:
		c := *m
		c.StreamIDAlias += 7000
		l.push(&c)
	}
}

// spontaneousMisaddressed sends a well-formed stream message for an address nobody owns.
func spontaneousMisaddressed(s *Sim, l *Link, downAlias uint32, kind int) {
	switch kind {
	case 0: // metadata for a source node the stream did not subscribe
		l.push(&message.DownstreamMetadata{RequestID: 9001, StreamIDAlias: downAlias, SourceNodeID: "ghost-node",
			Metadata: &message.BaseTime{Name: "ghost", BaseTime: time.Unix(1_700_000_000, 0).UTC()}})
	case 1: // metadata for an unknown stream alias
		l.push(&message.DownstreamMetadata{RequestID: 9003, StreamIDAlias: 4242, SourceNodeID: "node-1",
			Metadata: &message.BaseTime{Name: "ghost", BaseTime: time.Unix(1_700_000_000, 0).UTC()}})
	case 2: // chunk for an unknown stream alias
		info := message.UpstreamInfo{SessionID: "ghost", SourceNodeID: "ghost", StreamID: mkUUID(0xEE, 1)}
		l.push(&message.DownstreamChunk{StreamIDAlias: 4242, UpstreamOrAlias: &info, StreamChunk: &message.StreamChunk{SequenceNumber: 1}})
	case 3: // upstream ack for an unknown alias
		l.push(&message.UpstreamChunkAck{StreamIDAlias: 4242, Results: []*message.UpstreamChunkResult{{SequenceNumber: 1, ResultCode: message.ResultCodeSucceeded}}})
	case 5: // chunk for the live downstream that names an upstream alias the client never announced
		l.push(&message.DownstreamChunk{StreamIDAlias: downAlias, UpstreamOrAlias: message.UpstreamAlias(4242), StreamChunk: &message.StreamChunk{SequenceNumber: 1,
			DataPointGroups: []*message.DataPointGroup{{DataIDOrAlias: &message.DataID{Name: "n", Type: "t"}, DataPoints: []*message.DataPoint{{Payload: []byte("x")}}}}}})
	default: // call ack / reply for unknown ids
		l.push(&message.UpstreamCallAck{CallID: "ghost-call", ResultCode: message.ResultCodeSucceeded})
		l.push(&message.DownstreamCall{CallID: "ghost-reply", RequestCallID: "ghost-call", SourceNodeID: "ghost"})
	}
}
