package dsim

import (
	"bytes"
	"compress/flate"
	"context"
	"encoding/binary"
	"errors"
	"fmt"
	"io"
	"runtime"
	"sort"
	"sync"
	"time"

	"github.com/aptpod/iscp-go/transport"
	"github.com/aptpod/iscp-go/transport/compress"
	tquic "github.com/aptpod/iscp-go/transport/quic"
	"github.com/aptpod/iscp-go/transport/websocket"
	"github.com/aptpod/iscp-go/verifhook"
	quic "github.com/quic-go/quic-go"
)

// C13 (WebSocket and QUIC transports keep boundaries, bytes, order; frames stay
// decodable by an independent decoder) and C14 (datagram segmentation).

func init() {
	scenarios["C13"] = runC13
	scenarios["C14"] = runC14
}

// ---------------------------------------------------------------------------
// simulated WebSocket connection: a message pipe with the exclusive-writer
// contract of real WebSocket libraries and readers that return short reads.

type wsPipe struct {
	s      *Sim
	mu     sync.Mutex
	q      chan []byte
	wlock  chan struct{} // exclusive writer
	frag   func() int    // bytes per Read (0 = everything)
	closed chan struct{}
	once   sync.Once
	wire   [][]byte // every frame carried, in order
	bytes  uint64
}

type wsConn struct {
	in, out *wsPipe
	// strict: a back-end of the nhooyr/coder kind, whose peer sends every message in several frames
	// (data, then an empty final frame): the next message is handed out only after the previous
	// one has been read to its end (a Read has returned io.EOF). Lenient back-ends (gorilla)
	// discard what was left unread.
	strict bool
	last   *fragReader
}

func newWSPair(s *Sim, fragA, fragB func() int) (*wsConn, *wsConn) {
	ab := &wsPipe{s: s, q: make(chan []byte, 1<<14), wlock: make(chan struct{}, 1), frag: fragB, closed: make(chan struct{})}
	ba := &wsPipe{s: s, q: make(chan []byte, 1<<14), wlock: make(chan struct{}, 1), frag: fragA, closed: make(chan struct{})}
	return &wsConn{in: ba, out: ab}, &wsConn{in: ab, out: ba}
}

func (c *wsConn) Close() error { return c.CloseWithStatus(transport.CloseStatusNormal) }
func (c *wsConn) CloseWithStatus(transport.CloseStatus) error {
	c.in.once.Do(func() { close(c.in.closed) })
	c.out.once.Do(func() { close(c.out.closed) })
	return nil
}
func (c *wsConn) Ping(context.Context) error { return nil }

type fragReader struct {
	b    []byte
	frag func() int
	eof  bool
}

func (r *fragReader) Read(p []byte) (int, error) {
	if len(r.b) == 0 {
		r.eof = true
		return 0, io.EOF
	}
	n := len(p)
	if f := r.frag(); f > 0 && f < n {
		n = f
	}
	if n > len(r.b) {
		n = len(r.b)
	}
	copy(p, r.b[:n])
	r.b = r.b[n:]
	return n, nil
}

func (c *wsConn) Reader(ctx context.Context) (websocket.MessageType, io.Reader, error) {
	if c.strict && c.last != nil && !c.last.eof {
		c.in.s.Stat("c13.next-reader-refused-previous-message-unfinished")
		return 0, nil, errors.New("failed to get reader: previous message not read to completion")
	}
	select {
	case b := <-c.in.q:
		c.last = &fragReader{b: b, frag: c.in.frag}
		return websocket.MessageBinary, c.last, nil
	case <-c.in.closed:
		return 0, nil, transport.ErrAlreadyClosed
	case <-ctx.Done():
		return 0, nil, ctx.Err()
	}
}

type wsWriter struct {
	p    *wsPipe
	buf  bytes.Buffer
	done bool
}

func (w *wsWriter) Write(b []byte) (int, error) { return w.buf.Write(b) }
func (w *wsWriter) Close() error {
	if w.done {
		return nil
	}
	w.done = true
	frame := append([]byte(nil), w.buf.Bytes()...)
	w.p.mu.Lock()
	w.p.wire = append(w.p.wire, frame)
	w.p.bytes += uint64(len(frame))
	w.p.mu.Unlock()
	w.p.q <- frame
	<-w.p.wlock
	return nil
}

func (c *wsConn) Writer(ctx context.Context, _ websocket.MessageType) (io.WriteCloser, error) {
	select {
	case c.out.wlock <- struct{}{}:
		return &wsWriter{p: c.out}, nil
	case <-c.out.closed:
		return nil, transport.ErrAlreadyClosed
	case <-ctx.Done():
		return nil, ctx.Err()
	}
}

// ---------------------------------------------------------------------------
// simulated QUIC connection: one ordered byte stream per direction with
// arbitrary fragmentation, plus a datagram channel the scheduler owns.

type qStream struct {
	quic.SendStream
	quic.ReceiveStream
	mu     sync.Mutex
	cond   *sync.Cond
	buf    bytes.Buffer
	closed bool
	frag   func() int
	total  uint64
	wire   bytes.Buffer // everything ever written (for the independent decoder)
	park   func() int   // how often a Write is descheduled before it takes the bytes (flow control)
}

func newQStream(frag func() int) *qStream {
	q := &qStream{frag: frag}
	q.cond = sync.NewCond(&q.mu)
	return q
}

func (q *qStream) StreamID() quic.StreamID { return 0 }

func (q *qStream) Write(p []byte) (int, error) {
	// a stream write may wait for flow-control credit while it holds the caller's slice; it reads
	// the bytes only when it proceeds (io.Writer: p may be read at any time until Write returns)
	if q.park != nil {
		for k := q.park(); k > 0; k-- {
			runtime.Gosched()
		}
	}
	q.mu.Lock()
	defer q.mu.Unlock()
	if q.closed {
		return 0, &quic.ApplicationError{ErrorCode: 0}
	}
	q.buf.Write(p)
	q.wire.Write(p)
	q.total += uint64(len(p))
	q.cond.Broadcast()
	return len(p), nil
}

func (q *qStream) Read(p []byte) (int, error) {
	q.mu.Lock()
	defer q.mu.Unlock()
	for q.buf.Len() == 0 && !q.closed {
		q.cond.Wait()
	}
	if q.buf.Len() == 0 {
		return 0, &quic.ApplicationError{ErrorCode: 0}
	}
	n := len(p)
	if f := q.frag(); f > 0 && f < n {
		n = f
	}
	return q.buf.Read(p[:n])
}

func (q *qStream) Close() error {
	q.mu.Lock()
	q.closed = true
	q.cond.Broadcast()
	q.mu.Unlock()
	return nil
}

type qConn struct {
	quic.Connection
	send, recv *qStream
	dgOut      *[][]byte // datagrams this side sent (owned by the scheduler afterwards)
	dgMu       *sync.Mutex
	dgIn       chan []byte
	closed     chan struct{}
	once       *sync.Once
	peer       *qConn
	dgDelay    time.Duration // a datagram send takes this long (pacing / a full send queue)
}

func newQPair(fragA, fragB func() int) (*qConn, *qConn) {
	ab, ba := newQStream(fragB), newQStream(fragA)
	closed := make(chan struct{})
	once := &sync.Once{}
	a := &qConn{send: ab, recv: ba, dgOut: &[][]byte{}, dgMu: &sync.Mutex{}, dgIn: make(chan []byte, 1<<17), closed: closed, once: once}
	b := &qConn{send: ba, recv: ab, dgOut: &[][]byte{}, dgMu: &sync.Mutex{}, dgIn: make(chan []byte, 1<<17), closed: closed, once: once}
	a.peer, b.peer = b, a
	return a, b
}

func (c *qConn) OpenUniStream() (quic.SendStream, error) { return c.send, nil }
func (c *qConn) AcceptUniStream(ctx context.Context) (quic.ReceiveStream, error) {
	return c.recv, nil
}
func (c *qConn) CloseWithError(quic.ApplicationErrorCode, string) error {
	c.once.Do(func() { close(c.closed) })
	c.send.Close()
	c.recv.Close()
	return nil
}
func (c *qConn) SendDatagram(b []byte) error {
	select {
	case <-c.closed:
		return &quic.ApplicationError{ErrorCode: 0}
	default:
	}
	c.dgMu.Lock()
	*c.dgOut = append(*c.dgOut, append([]byte(nil), b...))
	c.dgMu.Unlock()
	if c.dgDelay > 0 {
		time.Sleep(c.dgDelay)
	}
	return nil
}
func (c *qConn) ReceiveDatagram(ctx context.Context) ([]byte, error) {
	select {
	case b := <-c.dgIn:
		return b, nil
	case <-c.closed:
		return nil, &quic.ApplicationError{ErrorCode: 0}
	case <-ctx.Done():
		return nil, ctx.Err()
	}
}

// takeDatagrams hands the scheduler everything this side has sent since the last call.
func (c *qConn) takeDatagrams() [][]byte {
	c.dgMu.Lock()
	defer c.dgMu.Unlock()
	out := *c.dgOut
	*c.dgOut = nil
	return out
}

// ---------------------------------------------------------------------------

func messageOfSize(t *Tape, n int, tag string) []byte {
	b := make([]byte, n)
	switch t.Choose("content", 3) {
	case 0: // repetitive, so that dictionaries matter
		pat := []byte(tag + "-abcabcabc-")
		for i := range b {
			b[i] = pat[i%len(pat)]
		}
	case 1: // pseudo-random
		x := splitmix{s: uint64(n)*977 + uint64(len(tag))}
		for i := range b {
			b[i] = byte(x.next() >> 32)
		}
		copy(b, tag)
	default: // repeats of the previous-message-like prefix
		for i := range b {
			b[i] = byte('a' + (i/7)%5)
		}
		copy(b, tag)
	}
	return b
}

func runC13(s *Sim) {
	t := s.T
	kind := Pick(t, "transport", "websocket", "quic", "websocket")
	s.Family = "transport-framing/" + kind
	s.yieldDensity = Pick(t, "yield", 0, 0, 100, 400)
	level := Pick(t, "level", 6, 0, 1, 9, 3)
	bits := Pick(t, "window-bits", 15, 0, 1, 8, 9, 12, 16, 20)
	if s.Tier == "thorough" && t.Bool("bits32", 1, 30) {
		bits = 32
	}
	ctype := Pick(t, "compress", compress.Type(""), compress.TypePerMessage, compress.TypeContextTakeOver, compress.TypeContextTakeOver)
	np := transport.NegotiationParams{Encoding: Pick(t, "enc", transport.EncodingNameProtobuf, transport.EncodingNameJSON), Compress: ctype}
	if ctype != "" {
		np.CompressLevel, np.CompressWindowBits = &level, &bits
	}
	window := 1 << bits
	if bits >= 31 {
		window = 1 << 30
	}
	sizes := []int{0, 1, 13, 200, window - 1, window, window + 1, 65535, 65536, 65537}
	if s.Tier == "thorough" {
		sizes = append(sizes, 1<<20, 4<<20)
	}
	var usable []int
	for _, z := range sizes {
		if z >= 0 && z <= 5<<20 {
			usable = append(usable, z)
		}
	}
	frag := func() int { return 0 }
	fragKind := t.Choose("frag", 4)
	fx := splitmix{s: s.T.Seed ^ 0x77}
	var fmu sync.Mutex
	switch fragKind {
	case 1:
		frag = func() int { return 1 }
	case 2:
		frag = func() int { fmu.Lock(); defer fmu.Unlock(); return 1 + int(fx.next()%7) }
	case 3:
		frag = func() int { fmu.Lock(); defer fmu.Unlock(); return 1 + int(fx.next()%5000) }
	}
	nWriters := Pick(t, "nwriters", 1, 2, 4)
	nMsgs := Pick(t, "nmsgs", 6, 3, 12)
	if s.Tier == "thorough" {
		nMsgs *= 2
	}
	// per writer programs
	progs := make([][][]byte, nWriters)
	total := 0
	for w := range progs {
		for k := 0; k < nMsgs; k++ {
			z := usable[t.Choose("msg-size", len(usable))]
			progs[w] = append(progs[w], messageOfSize(t, z, fmt.Sprintf("w%d-m%d", w, k)))
			total++
		}
	}
	var A, B transport.Transport
	var wireFrames func() [][]byte
	var carried func() uint64
	var delivered func() uint64 // bytes that reached the peer (datagrams written beside the stream are not forwarded here)
	switch kind {
	case "websocket":
		ca, cb := newWSPair(s, frag, frag)
		if Pick(t, "ws-backend-kind", "hands-out-next-message-only-after-the-previous-was-read-to-its-end", "discards-unread-rest") != "discards-unread-rest" {
			ca.strict, cb.strict = true, true
			s.Stat("env.websocket-backend-requires-message-read-to-completion")
		}
		wnp := websocket.NegotiationParams{NegotiationParams: np}
		A = websocket.New(websocket.Config{Conn: ca, NegotiationParams: wnp})
		B = websocket.New(websocket.Config{Conn: cb, NegotiationParams: wnp})
		wireFrames = func() [][]byte { ca.out.mu.Lock(); defer ca.out.mu.Unlock(); return ca.out.wire }
		carried = func() uint64 { ca.out.mu.Lock(); defer ca.out.mu.Unlock(); return ca.out.bytes }
	default:
		qa, qb := newQPair(frag, frag)
		qnp := tquic.NegotiationParams{NegotiationParams: np}
		ta, err1 := tquic.New(tquic.Config{Connection: qa, NegotiationParams: qnp})
		tb, err2 := tquic.New(tquic.Config{Connection: qb, NegotiationParams: qnp})
		if err1 != nil || err2 != nil {
			s.HarnessError("quic.New: %v %v", err1, err2)
			return
		}
		A, B = ta, tb
		if t.Bool("quic-park-writes", 1, 2) {
			px := splitmix{s: s.T.Seed ^ 0x99}
			var pmu sync.Mutex
			qa.send.park = func() int { pmu.Lock(); defer pmu.Unlock(); return int(px.next() % 4) }
		}
		// a second encoder on the same transport: datagram messages written while stream writes are
		// in progress (their delivery is judged by C14, here they only have to leave the stream alone)
		if ndg := Pick(t, "quic-datagram-writers", 0, 0, 1, 2); ndg > 0 {
			if ua, ok := ta.AsUnreliable(); ok {
				s.Stat("env.datagram-writes-beside-stream-writes")
				for g := 0; g < ndg; g++ {
					g := g
					msgs := make([][]byte, nMsgs)
					for k := range msgs {
						msgs[k] = messageOfSize(t, Pick(t, "dg-size", 1, 200, 900, 3000), fmt.Sprintf("dg%d-%d", g, k))
					}
					go func() {
						for _, m := range msgs {
							_ = ua.Write(m)
							runtime.Gosched()
						}
					}()
				}
			}
		}
		wireFrames = func() [][]byte {
			// independent parser of the documented framing: 4-byte big-endian length, payload
			qa.send.mu.Lock()
			raw := append([]byte(nil), qa.send.wire.Bytes()...)
			qa.send.mu.Unlock()
			var out [][]byte
			for len(raw) >= 4 {
				n := int(binary.BigEndian.Uint32(raw[:4]))
				if len(raw) < 4+n {
					break
				}
				out = append(out, raw[4:4+n])
				raw = raw[4+n:]
			}
			return out
		}
		delivered = func() uint64 { qa.send.mu.Lock(); defer qa.send.mu.Unlock(); return qa.send.total }
		carried = func() uint64 {
			qa.send.mu.Lock()
			n := qa.send.total
			qa.send.mu.Unlock()
			// datagrams are carried by the connection too
			qa.dgMu.Lock()
			for _, d := range *qa.dgOut {
				n += uint64(len(d))
			}
			qa.dgMu.Unlock()
			return n
		}
	}
	// writers and one reader run as plain bubble goroutines; the scheduler only advances time
	var mu sync.Mutex
	var got [][]byte
	var readErr error
	wdone := make(chan error, nWriters)
	for w := range progs {
		w := w
		go func() {
			for _, m := range progs[w] {
				if err := A.Write(m); err != nil {
					wdone <- fmt.Errorf("writer %d: %w", w, err)
					return
				}
			}
			wdone <- nil
		}()
	}
	rdone := make(chan struct{})
	go func() {
		defer close(rdone)
		for i := 0; i < total; i++ {
			m, err := B.Read()
			if err != nil {
				mu.Lock()
				readErr = err
				mu.Unlock()
				return
			}
			mu.Lock()
			got = append(got, m)
			mu.Unlock()
		}
	}()
	for i := 0; i < 200; i++ {
		s.Wait()
		select {
		case <-rdone:
			i = 1 << 20
		default:
			time.Sleep(10 * time.Millisecond)
		}
		s.steps++
	}
	s.Nontrivial()
	for w := 0; w < nWriters; w++ {
		select {
		case err := <-wdone:
			if err != nil {
				s.Violate("C13.write-error", kind, "%v (compress=%q level=%d bits=%d)", err, ctype, level, bits)
			}
		default:
			s.Violate("C13.write-blocks", kind, "a writer did not finish (compress=%q level=%d bits=%d)", ctype, level, bits)
		}
	}
	mu.Lock()
	defer mu.Unlock()
	desc := fmt.Sprintf("%s compress=%q level=%d bits=%d frag=%d writers=%d", kind, ctype, level, bits, fragKind, nWriters)
	if readErr != nil {
		s.Violate("C13.read-error", kind, "%s: Read failed after %d of %d messages: %v", desc, len(got), total, readErr)
	}
	// each message exactly once, whole, per-writer order preserved: the read sequence must be an
	// interleaving of the writers' sequences (tiny messages of different writers can be equal, so
	// all consistent attributions are tracked)
	type st [4]int
	states := map[st]bool{{}: true}
	for i, m := range got {
		nextStates := map[st]bool{}
		for cur := range states {
			for w := range progs {
				if cur[w] < len(progs[w]) && bytes.Equal(progs[w][cur[w]], m) {
					n := cur
					n[w]++
					nextStates[n] = true
				}
			}
		}
		if len(nextStates) == 0 {
			s.Violate("C13.message-corrupted-or-reordered", kind, "%s: message #%d returned by Read (%d bytes, starts %q) is not the next message of any writer under any attribution of the earlier ones", desc, i+1, len(m), trunc(string(m), 24))
			break
		}
		states = nextStates
	}
	if readErr == nil && len(got) != total {
		s.Violate("C13.message-lost", kind, "%s: %d messages written, %d read", desc, total, len(got))
	}
	// independent decoder over the captured wire frames
	frames := wireFrames()
	enabled := ctype != "" && level != 0
	var hist []byte
	var dec [][]byte
	for i, f := range frames {
		var plain []byte
		var err error
		switch {
		case !enabled:
			plain = f
		case ctype == compress.TypePerMessage || kind == "quic":
			plain, err = io.ReadAll(flate.NewReader(bytes.NewReader(f)))
		default:
			dict := hist
			if len(dict) > window {
				dict = dict[len(dict)-window:]
			}
			plain, err = io.ReadAll(flate.NewReaderDict(bytes.NewReader(f), dict))
			hist = append(hist, plain...)
			if len(hist) > window {
				hist = hist[len(hist)-window:]
			}
		}
		if err != nil {
			s.Violate("C13.wire-not-decodable", kind, "%s: frame #%d (%d bytes) cannot be decoded by an independent decoder of the documented framing: %v", desc, i+1, len(f), err)
			break
		}
		dec = append(dec, plain)
	}
	if len(dec) == len(frames) && len(s.viol) == 0 {
		if len(dec) != len(got) {
			s.Violate("C13.wire-frame-count", kind, "%s: %d frames on the wire, %d messages read", desc, len(dec), len(got))
		} else {
			for i := range dec {
				if !bytes.Equal(dec[i], got[i]) {
					s.Violate("C13.wire-content", kind, "%s: frame #%d decodes to %d bytes independently, Read returned %d bytes", desc, i+1, len(dec[i]), len(got[i]))
					break
				}
			}
		}
	}
	if tx := A.TxBytesCounterValue(); tx != carried() {
		s.Violate("C13.tx-counter", kind, "%s: TxBytesCounterValue=%d, the connection carried %d bytes", desc, tx, carried())
	}
	if delivered == nil {
		delivered = carried
	}
	if rx := B.RxBytesCounterValue(); readErr == nil && len(got) == total && rx != delivered() {
		s.Violate("C13.rx-counter", kind, "%s: RxBytesCounterValue=%d, the connection carried %d bytes to the peer", desc, rx, delivered())
	}
	var readSizes []int
	for _, m := range got {
		readSizes = append(readSizes, len(m))
	}
	s.sample = map[string]any{"transport": kind, "compress": string(ctype), "level": level, "window_bits": bits, "fragmentation": fragKind, "writers": nWriters, "messages": total, "sizes_in_read_order": readSizes}
	A.Close()
	B.Close()
	s.Wait()
	time.Sleep(3 * time.Second)
	s.Wait()
}

// ---------------------------------------------------------------------------
// C14

type dgSink struct{ out [][]byte }

func (d *dgSink) SendDatagram(b []byte) error {
	d.out = append(d.out, append([]byte(nil), b...))
	return nil
}

func permutations(n int, f func([]int)) {
	p := make([]int, n)
	for i := range p {
		p[i] = i
	}
	var rec func(k int)
	rec = func(k int) {
		if k == n {
			f(p)
			return
		}
		for i := k; i < n; i++ {
			p[k], p[i] = p[i], p[k]
			rec(k + 1)
			p[k], p[i] = p[i], p[k]
		}
	}
	rec(0)
}

func safeReceive(rb *verifhook.SegmentReadBuffers, b []byte) (m []byte, ok bool, pan string) {
	defer func() {
		if r := recover(); r != nil {
			pan = fmt.Sprint(r)
		}
	}()
	m, ok, _ = rb.Receive(b)
	return
}

func runC14(s *Sim) {
	t := s.T
	mode := Pick(t, "mode", "sampled", "exhaustive", "sampled", "quic", "limit", "malformed")
	s.Family = "datagram-segments/" + mode
	P := Pick(t, "payload", 4, 1, 2, 3, 8, 64, 1188)
	if mode == "limit" {
		P = Pick(t, "payload-limit", 1, 2)
	}
	restore := verifhook.SetSegmentMaxPayloadSize(P)
	defer restore()
	expiry := Pick(t, "expiry", 10*time.Second, time.Second)
	newRB := func() *verifhook.SegmentReadBuffers {
		return &verifhook.SegmentReadBuffers{ReadBuffer: map[uint32]*verifhook.SegmentReadBuffer{}, ReadBufferExpiry: expiry}
	}
	mkMsg := func(n int, tag byte) []byte {
		b := make([]byte, n)
		for i := range b {
			b[i] = tag + byte(i%23)
		}
		return b
	}
	segment := func(seq uint32, msg []byte) ([][]byte, error) {
		sink := &dgSink{}
		_, err := verifhook.SegmentSendTo(sink, seq, msg)
		return sink.out, err
	}
	s.Nontrivial()
	switch mode {
	case "exhaustive":
		// every permutation x every loss subset for messages of 1..6 segments
		k := 1 + t.Choose("nseg", 6)
		size := (k-1)*P + Pick(t, "tail", 0, 1, P-1)
		if k == 1 {
			size = Pick(t, "size1", 0, 1, P)
		}
		if size < 0 {
			size = 0
		}
		msg := mkMsg(size, 'A')
		segs, err := segment(7, msg)
		if err != nil {
			s.Violate("C14.sender-refuses-valid", "", "SendTo refuses a %d-byte message with payload size %d: %v", size, P, err)
			return
		}
		n := len(segs)
		if n > 7 {
			s.HarnessError("unexpected segment count %d", n)
			return
		}
		cases := 0
		permutations(n, func(p []int) {
			for mask := 0; mask < 1<<n; mask++ {
				cases++
				rb := newRB()
				delivered := 0
				var out []byte
				okCount := 0
				for _, i := range p {
					if mask&(1<<i) != 0 {
						continue // lost
					}
					delivered++
					m, ok, pan := safeReceive(rb, segs[i])
					if pan != "" {
						s.Violate("C14.receive-panics", "well-formed", "Receive panicked on a well-formed segment: %s", pan)
						return
					}
					if ok {
						okCount++
						out = m
					}
				}
				complete := delivered == n
				switch {
				case complete && (okCount != 1 || !bytes.Equal(out, msg)):
					s.Violate("C14.not-reassembled", fmt.Sprintf("segments=%d", n), "message of %d bytes (%d segments, payload %d) delivered in order %v without loss: completed %d times, equal=%v", size, n, P, p, okCount, bytes.Equal(out, msg))
				case !complete && okCount != 0:
					s.Violate("C14.partial-delivered", fmt.Sprintf("segments=%d", n), "message of %d bytes with segments lost (mask %b, order %v) was handed up (%d bytes)", size, mask, p, len(out))
				}
			}
		})
		s.StatN("c14.exhaustive-cases", cases)
		s.sample = map[string]any{"mode": mode, "segments": n, "payload": P, "size": size, "cases": cases}
	case "sampled":
		// 2-4 messages interleaved, random order and losses, sequence numbers around the wrap
		nm := Pick(t, "nmsgs", 2, 3, 4)
		base := Pick(t, "seq-base", uint32(1), uint32(0xFFFFFFFE), uint32(0xFFFFFFFF), uint32(1000))
		type mm struct {
			msg  []byte
			segs [][]byte
			lost map[int]bool
			done int
			out  []byte
			dup  bool
		}
		dupSegs := t.Bool("duplicates", 1, 3)
		var ms []*mm
		var pool [][2]int
		for i := 0; i < nm; i++ {
			k := Pick(t, "k", 1, 2, 3, 5, 9, 20)
			size := (k-1)*P + Pick(t, "tail", 0, 1, P-1, P)
			m := &mm{msg: mkMsg(size, byte('A'+i)), lost: map[int]bool{}}
			segs, err := segment(base+uint32(i), m.msg)
			if err != nil {
				s.Violate("C14.sender-refuses-valid", "", "SendTo refuses a %d-byte message: %v", size, err)
				return
			}
			m.segs = segs
			if t.Bool("lossy", 1, 2) {
				m.lost[t.Choose("lost-idx", len(segs))] = true
			}
			for j := range segs {
				pool = append(pool, [2]int{i, j})
			}
			if dupSegs && t.Bool("dup-this", 1, 2) {
				// the network delivers one datagram of this message twice
				j := t.Choose("dup-idx", len(segs))
				if !m.lost[j] {
					pool = append(pool, [2]int{i, j})
					m.dup = true
					s.Stat("fault.datagram-duplicated")
				}
			}
			ms = append(ms, m)
		}
		rb := newRB()
		for len(pool) > 0 {
			x := t.Choose("next-seg", len(pool))
			pi := pool[x]
			pool = append(pool[:x], pool[x+1:]...)
			m := ms[pi[0]]
			if m.lost[pi[1]] {
				continue
			}
			out, ok, pan := safeReceive(rb, m.segs[pi[1]])
			if pan != "" {
				s.Violate("C14.receive-panics", "well-formed", "Receive panicked: %s", pan)
				return
			}
			if ok {
				// the completing segment belongs to message pi[0]: what comes out must be that message
				if bytes.Equal(out, m.msg) {
					m.done++
				} else {
					s.Violate("C14.mixed-message", "", "the segment that completed message %d made Receive hand up %d bytes that are not that message (%d interleaved messages)", pi[0], len(out), nm)
				}
			}
		}
		for i, m := range ms {
			complete := len(m.lost) == 0
			if complete && m.dup && len(m.segs) == 1 && m.done == 2 {
				continue // a single-datagram message that the network duplicated is two messages
			}
			if complete && m.done != 1 {
				s.Violate("C14.not-reassembled", "interleaved", "message %d (%d bytes, %d segments, seq %d) arrived completely among %d interleaved messages but was handed up %d times", i, len(m.msg), len(m.segs), base+uint32(i), nm, m.done)
			}
			if !complete && m.done != 0 {
				s.Violate("C14.partial-delivered", "interleaved", "message %d lost a segment but was handed up", i)
			}
		}
		// expiry: an incomplete message is forgotten; a late last segment must not complete it
		msg := mkMsg(3*P, 'Z')
		segs, _ := segment(base+77, msg)
		rb2 := newRB()
		for _, sg := range segs[:len(segs)-1] {
			safeReceive(rb2, sg)
		}
		time.Sleep(expiry + time.Second)
		rb2.RemoveExpired()
		if out, ok, _ := safeReceive(rb2, segs[len(segs)-1]); ok {
			s.Violate("C14.expired-message-completed", "", "a message whose first segments arrived %v ago (expiry %v, swept) was completed by a late last segment (%d bytes)", expiry+time.Second, expiry, len(out))
		}
		if len(rb2.ReadBuffer) > 1 {
			s.Violate("C14.expired-not-forgotten", "", "%d buffers remain after expiry sweep", len(rb2.ReadBuffer))
		}
		s.sample = map[string]any{"mode": mode, "messages": nm, "payload": P, "seq_base": base}
	case "limit":
		// around the 65535-segment limit: the sender refuses what the format cannot carry, and
		// what it accepts must be reassembled
		k := Pick(t, "limit-k", 65535, 65534, 65536, 65537)
		size := k*P + Pick(t, "tail", 0, P-1)
		msg := mkMsg(size, 'L')
		segs, err := segment(5, msg)
		s.sample = map[string]any{"mode": mode, "size": size, "payload": P, "segments": len(segs), "refused": err != nil}
		if err != nil {
			if size/P <= 65535 {
				// refusing is always safe; the statement only demands refusal of oversized messages
				s.Stat("c14.limit-refused-early")
			}
			return
		}
		rb := newRB()
		okCount := 0
		var out []byte
		for _, sg := range segs {
			m, ok, pan := safeReceive(rb, sg)
			if pan != "" {
				s.Violate("C14.receive-panics", "limit", "Receive panicked near the segment limit: %s", pan)
				return
			}
			if ok {
				okCount++
				out = m
			}
		}
		if okCount != 1 || !bytes.Equal(out, msg) {
			s.Violate("C14.not-reassembled", "segment-limit", "the sender accepted a message of %d bytes (%d segments with payload %d) but the receiver handed it up %d times (equal=%v): accepted messages must be reassemblable, others refused", size, len(segs), P, okCount, bytes.Equal(out, msg))
		}
	case "malformed":
		rb := newRB()
		// a partially received message must survive malformed datagrams around it
		msg := mkMsg(2*P+1, 'M')
		segs, _ := segment(9, msg)
		safeReceive(rb, segs[0])
		for i := 0; i < 12; i++ {
			var d []byte
			switch t.Choose("mal-kind", 4) {
			case 0:
				d = make([]byte, t.Choose("short-len", 8)) // shorter than the header
			case 1:
				d = append([]byte(nil), segs[1]...)
				binary.BigEndian.PutUint16(d[6:8], uint16(len(segs)+3)) // index beyond the announced count
			case 2:
				d = make([]byte, 8+t.Choose("rand-len", 20))
				for j := range d {
					d[j] = byte(t.Choose("rand-byte", 256))
				}
				binary.BigEndian.PutUint32(d[:4], 424242) // a sequence number of its own
			default:
				d = []byte{}
			}
			_, ok, pan := safeReceive(rb, d)
			if pan != "" {
				s.Violate("C14.receive-panics", fmt.Sprintf("len=%d", len(d)), "Receive panicked on a malformed datagram of %d bytes: %s", len(d), pan)
				return
			}
			_ = ok
		}
		var out []byte
		okCount := 0
		for _, sg := range segs[1:] {
			if m, ok, _ := safeReceive(rb, sg); ok {
				okCount++
				out = m
			}
		}
		if okCount != 1 || !bytes.Equal(out, msg) {
			s.Violate("C14.not-reassembled", "after-malformed", "a message interleaved with malformed datagrams was handed up %d times (equal=%v)", okCount, bytes.Equal(out, msg))
		}
		s.sample = map[string]any{"mode": mode, "payload": P}
		// the same through the QUIC transport's receive goroutine: the process must survive
		runC14Quic(s, P, true)
	case "quic":
		runC14Quic(s, P, false)
	}
}

// runC14Quic drives WriteUnreliable / datagram Read of a quic.Transport pair over the
// simulated connection with loss, reordering and (optionally) malformed datagrams.
func runC14Quic(s *Sim, P int, malformed bool) {
	t := s.T
	level := Pick(t, "level", 0, 6)
	np := transport.NegotiationParams{Encoding: transport.EncodingNameProtobuf}
	if level > 0 {
		np.Compress = compress.TypePerMessage
		np.CompressLevel = &level
	}
	frag := func() int { return 0 }
	qa, qb := newQPair(frag, frag)
	qnp := tquic.NegotiationParams{NegotiationParams: np}
	ta, err1 := tquic.New(tquic.Config{Connection: qa, NegotiationParams: qnp, ReadBufferExpiry: 5 * time.Second})
	tb, err2 := tquic.New(tquic.Config{Connection: qb, NegotiationParams: qnp, ReadBufferExpiry: 5 * time.Second})
	if err1 != nil || err2 != nil {
		s.HarnessError("quic.New: %v %v", err1, err2)
		return
	}
	ua, _ := ta.AsUnreliable()
	ua2, _ := ta.AsUnreliable()
	ub, _ := tb.AsUnreliable()
	nm := Pick(t, "q-nmsgs", 3, 1, 6)
	type qm struct {
		msg  []byte
		lost bool
	}
	var msgs []*qm
	var flight [][]byte
	// several goroutines write through the handles (and the transport) at the same time while a datagram
	// send takes a moment, so that the segments of different messages are interleaved on the way out
	concurrent := t.Bool("q-concurrent-writers", 1, 3)
	if concurrent {
		qa.dgDelay = time.Millisecond
		s.Stat("env.concurrent-datagram-writers")
	}
	var wmu sync.Mutex
	var werrs []error
	for i := 0; i < nm; i++ {
		k := Pick(t, "q-k", 1, 2, 4, 9)
		size := (k-1)*P + Pick(t, "q-tail", 0, 1, P)
		m := &qm{msg: messageOfSize(t, size, fmt.Sprintf("dg%d", i))}
		// the application may use several handles of one transport (and the transport itself)
		path := Pick(t, "q-path", "handle-1", "handle-1", "handle-2", "transport")
		write := func() error {
			switch path {
			case "handle-2":
				return ua2.Write(m.msg)
			case "transport":
				return ta.WriteUnreliable(m.msg)
			}
			return ua.Write(m.msg)
		}
		if concurrent {
			start := time.Duration(t.Choose("q-start-offset", 4)) * 500 * time.Microsecond
			go func() {
				time.Sleep(start)
				if err := write(); err != nil {
					wmu.Lock()
					werrs = append(werrs, err)
					wmu.Unlock()
				}
			}()
			msgs = append(msgs, m)
			continue
		}
		if err := write(); err != nil {
			s.Violate("C14.sender-refuses-valid", "quic", "unreliable Write of %d bytes: %v", size, err)
			return
		}
		segs := qa.takeDatagrams()
		if t.Bool("q-lossy", 1, 3) && len(segs) > 0 {
			x := t.Choose("q-lost", len(segs))
			segs = append(segs[:x], segs[x+1:]...)
			m.lost = true
			s.Stat("fault.datagram-loss")
		}
		flight = append(flight, segs...)
		msgs = append(msgs, m)
	}
	if concurrent {
		s.Wait()
		time.Sleep(time.Second)
		s.Wait()
		wmu.Lock()
		if len(werrs) > 0 {
			s.Violate("C14.sender-refuses-valid", "quic:concurrent", "unreliable Write failed with concurrent writers: %v", werrs[0])
		}
		wmu.Unlock()
		flight = qa.takeDatagrams()
	}
	if malformed {
		flight = append(flight, []byte{1, 2, 3}, []byte{}, make([]byte, 7))
		s.Stat("fault.malformed-datagram")
	}
	// reorder
	for i := len(flight) - 1; i > 0; i-- {
		j := t.Choose("q-shuffle", i+1)
		flight[i], flight[j] = flight[j], flight[i]
	}
	var mu sync.Mutex
	var got [][]byte
	go func() {
		for {
			m, err := ub.Read()
			if err != nil {
				return
			}
			mu.Lock()
			got = append(got, m)
			mu.Unlock()
		}
	}()
	for _, d := range flight {
		qb.dgIn <- d
	}
	s.Wait()
	time.Sleep(100 * time.Millisecond)
	s.Wait()
	mu.Lock()
	var gotS, wantS []string
	for _, g := range got {
		gotS = append(gotS, string(g))
	}
	for _, m := range msgs {
		if !m.lost {
			wantS = append(wantS, string(m.msg))
		}
	}
	mu.Unlock()
	sort.Strings(gotS)
	sort.Strings(wantS)
	ma, mb := setDiff(wantS, gotS)
	if len(ma) > 0 || len(mb) > 0 {
		s.Violate("C14.quic-datagram-delivery", fmt.Sprintf("malformed=%v", malformed), "QUIC unreliable path (payload %d, level %d): %d complete messages sent, %d received; missing %d, unexpected/partial %d", P, level, len(wantS), len(gotS), len(ma), len(mb))
	}
	if s.sample == nil {
		s.sample = map[string]any{"mode": "quic", "messages": nm, "payload": P, "datagrams": len(flight)}
	}
	// incomplete messages are forgotten after the expiry time (5 s here, swept every second): the last
	// segment of a message that arrives 9 s after the others completes nothing
	if !concurrent && t.Bool("q-late-segment-after-expiry", 1, 3) {
		qa.dgDelay = 0
		em := messageOfSize(t, 2*P+Pick(t, "q-exp-tail", 1, P), "expired")
		if err := ua.Write(em); err == nil {
			segs := qa.takeDatagrams()
			if len(segs) >= 2 {
				held := segs[t.Choose("q-exp-held", len(segs))]
				for _, d := range segs {
					if &d[0] != &held[0] {
						qb.dgIn <- d
					}
				}
				s.Wait()
				time.Sleep(9 * time.Second)
				s.Wait()
				qb.dgIn <- held
				s.Wait()
				time.Sleep(100 * time.Millisecond)
				s.Wait()
				s.Stat("fault.datagram-after-expiry")
				mu.Lock()
				for _, g := range got {
					if bytes.Equal(g, em) {
						s.Violate("C14.not-forgotten-after-expiry", "quic", "a message of %d segments whose last missing segment arrived 9 s after the others (expiry 5 s) was handed up", len(segs))
						break
					}
				}
				mu.Unlock()
			}
		}
	}
	ta.Close()
	tb.Close()
	s.Wait()
	time.Sleep(3 * time.Second)
	s.Wait()
}

var _ = errors.New
